"""Fixed list of program shapes for C14: each function instantiates one scoping / typing / indexing / emit shape named
in the property statement with random leaves (names, constants, operators, inputs) and returns
{"runs": [(program, records), ...]}.  A program is {"prog": AST, "verb": "put"|"filter", "flags": [...], "presets": [...]}
or {"chain": [program1, program2]} for `put P1 then put P2`."""
from . import dslgen as G


def I(n):
    return ("int", n) if n >= 0 else ("un", "-", ("int", -n))


def Sx(s):
    return ("str", s)


def L(n):
    return ("local", n)


def F(n):
    return ("field", n)


def O(n):
    return ("oos", n)


def Bn(op, a, b):
    return ("bin", op, a, b)


def asg(lv, e):
    return ("assign", lv, e)


def opa(op, lv, e):
    return ("opassign", op, lv, e)


def pr(*es):
    return ("print", list(es))


def ix(base, *idx):
    return ("index", base, list(idx))


def call(name, *args):
    return ("bcall", name, list(args))


def P(prog, verb="put", flags=(), presets=()):
    return {"prog": prog, "verb": verb, "flags": list(flags), "presets": list(presets)}


NAMES = ["x", "y", "n", "t", "acc", "val", "tmp", "u", "w", "cnt"]
TYPES_FOR = {"int": ["int", "num", "var"], "str": ["str", "var"], "bool": ["bool", "var"], "map": ["map", "var"], "arr": ["arr", "var"]}


def names(rng, k):
    return rng.sample(NAMES, k)


def val(rng, ty=None):
    ty = ty or rng.choice(["int", "int", "str", "bool"])
    if ty == "int":
        return I(rng.choice([0, 1, 2, 3, 5, 8, 13, 40, rng.randint(0, 999), -rng.randint(1, 20)]))
    if ty == "str":
        return Sx(rng.choice(G.STR_POOL))
    if ty == "bool":
        return ("bool", rng.random() < 0.5)
    if ty == "map":
        return ("map", [(Sx(k), val(rng, "int")) for k in rng.sample(G.KEY_POOL, rng.randint(0, 3))])
    if ty == "arr":
        return ("arr", [val(rng, "int") for _ in range(rng.randint(0, 4))])
    raise ValueError(ty)


def wrong_val(rng, ty):
    other = [t for t in ["int", "str", "bool", "map", "arr"] if t != ty]
    return val(rng, rng.choice(other))


def block_kind(rng, cond, body):
    """Wrap statements in one of the block-introducing constructs (each opens a new scope, executed once)."""
    k = rng.choice(["if", "cond", "else", "elif", "while", "dowhile", "for1", "for2", "forc"])
    if k == "if":
        return [("if", [(("bool", True), body)], None)]
    if k == "cond":
        return [("cond", ("bool", True), body)]
    if k == "else":
        return [("if", [(("bool", False), [pr(Sx("never"))])], body)]
    if k == "elif":
        return [("if", [(("bool", False), [pr(Sx("never"))]), (("bool", True), body)], None)]
    if k == "while":
        return [asg(L("guard"), I(0)), ("while", Bn("<", L("guard"), I(1)), [opa("+", L("guard"), I(1))] + body)]
    if k == "dowhile":
        return [("dowhile", body, ("bool", False))]
    if k == "for1":
        return [("for1", (None, "loopvar"), ("arr", [I(1)]), body)]
    if k == "for2":
        return [("for2", (None, "lk"), (None, "lv"), ("map", [(Sx("a"), I(1))]), body)]
    return [("forc", [asg(L("cc"), I(0))], Bn("<", L("cc"), I(1)), [opa("+", L("cc"), I(1))], body)]


def where(rng, stmts, recs=None):
    """Put the statements into an end block (no input) or into the main block with a few records."""
    if rng.random() < 0.5:
        return P([("end", stmts)], flags=["-q"] if rng.random() < 0.3 else []), []
    return P(stmts), (recs if recs is not None else G.gen_records(rng, rng.choice([1, 2, 3]), hetero=False))


# ------------------------------------------------------------------------------------------------

def shadow_inner_var(rng):
    """inner `var` shadows an outer local; the outer value is read again after the block."""
    x, = names(rng, 1)
    ty = rng.choice(["int", "str", "bool"])
    v1, v2 = val(rng, ty), val(rng, ty)
    outer = rng.choice([asg(L(x), v1), ("decl", rng.choice(TYPES_FOR[ty]), x, v1)])
    inner = [("decl", rng.choice(TYPES_FOR[ty]), x, v2), pr(Sx("inner"), L(x))]
    if rng.random() < 0.5:
        inner.append(asg(L(x), val(rng, ty)))
        inner.append(pr(Sx("inner2"), L(x)))
    stmts = [outer] + block_kind(rng, None, inner) + [pr(Sx("outer"), L(x))]
    p, recs = where(rng, stmts)
    return {"runs": [(p, recs)]}


def undeclared_updates_enclosing(rng):
    """an undeclared assignment inside nested blocks updates the nearest enclosing binding."""
    x, y = names(rng, 2)
    v = [val(rng, "int") for _ in range(5)]
    depth = rng.choice([1, 2, 3])
    shadow_level = rng.choice([None, 1, 2])
    inner = [asg(L(x), v[1]), asg(L(y), v[2]), pr(Sx("deep"), L(x), L(y))]
    body = inner
    for lvl in range(depth, 0, -1):
        pre = []
        post = [pr(Sx("level%d" % lvl), L(x), call("typeof", L(y)))]
        if shadow_level == lvl:
            pre = [("decl", "var", x, v[3])]
        body = pre + block_kind(rng, None, body) + post
    stmts = [asg(L(x), v[0])] + body + [pr(Sx("top"), L(x), call("typeof", L(y)))]
    p, recs = where(rng, stmts)
    return {"runs": [(p, recs)]}


def locals_not_visible_in_callee(rng):
    x, y, z = names(rng, 3)
    v = [val(rng, "int") for _ in range(4)]
    fbody = [pr(Sx("callee sees"), call("typeof", L(x)), call("typeof", L(y))),
             asg(L(x), v[2]), ("decl", "var", y, v[3]), ("return", Bn("+", L("arg"), L(x)))]
    f = ("func", "ff", [(None, "arg")], None, fbody)
    sbody = [pr(Sx("subr sees"), call("typeof", L(x))), asg(L(x), v[2]), pr(Sx("subr set"), L(x))]
    s = ("subr", "ss", [(None, "arg")], sbody)
    main = [asg(L(x), v[0]), ("decl", "var", y, v[1]), asg(L(z), ("ucall", "ff", [L(x)])), ("call", "ss", [L(y)]),
            pr(Sx("caller"), L(x), L(y), L(z))]
    top = [f, s] if rng.random() < 0.5 else []
    prog = top + [("end", main)] + ([] if top else [s, f])
    return {"runs": [(P(prog), [])]}


def recursion_frames(rng):
    """same-named locals in recursive frames keep their own values (pooled frames must be cleared)."""
    t, u = rng.sample([x for x in NAMES if x != "n"], 2)
    k = rng.randint(1, 4)
    base = rng.randint(0, 3)
    op1, op2 = rng.choice(["+", "*"]), rng.choice(["+", "-"])
    typed = rng.random() < 0.5
    body = [("if", [(Bn("<=", L("n"), I(0)), [("return", I(base))])], None),
            ("decl", rng.choice(["var", "int", "num"]), t, Bn(op1, L("n"), I(k))),
            ("if", [(Bn("==", Bn("%", L("n"), I(2)), I(0)), [("decl", "var", "onlyeven", L("n")), pr(Sx("even frame"), L("onlyeven"))])], None),
            pr(Sx("before"), L("n"), L(t), call("typeof", L(u)), call("typeof", L("onlyeven"))),
            asg(L(u), ("ucall", "rr", [Bn("-", L("n"), I(1))])),
            pr(Sx("after"), L("n"), L(t), L(u)),
            ("return", Bn(op2, L(t), L(u)))]
    f = ("func", "rr", [("int" if typed else None, "n")], "int" if typed else None, body)
    depth = rng.randint(1, 6)
    main = [pr(("ucall", "rr", [I(depth)]))]
    if rng.random() < 0.5:
        return {"runs": [(P([f, ("end", main)]), [])]}
    return {"runs": [(P([f, asg(F("r"), ("ucall", "rr", [Bn("%", F("i"), I(4))]))], flags=[]), G.gen_records(rng, rng.randint(1, 5), hetero=False))]}


def loop_variables_scoped(rng):
    k, v, x = "k", "v", names(rng, 1)[0]
    outer_k = rng.random() < 0.6
    pre = [asg(L(k), Sx("outerk")), asg(L(v), I(99))] if outer_k else []
    m = ("map", [(Sx(a), I(i)) for i, a in enumerate(rng.sample(G.KEY_POOL, rng.randint(1, 3)))])
    kind = rng.choice(["for2", "for1", "forc_untyped", "forc_typed", "formulti"])
    if kind == "for2":
        loop = ("for2", (None, k), (None, v), m, [pr(L(k), L(v)), asg(L(k), Sx("changed")), asg(L(x), I(5))])
    elif kind == "for1":
        loop = ("for1", (None, k), m, [pr(L(k)), asg(L(x), I(5))])
    elif kind == "formulti":
        mm = ("map", [(Sx("p"), m), (Sx("q"), m)])
        loop = ("formulti", [k, "k2"], v, mm, [pr(L(k), L("k2"), L(v)), asg(L(x), I(5))])
    elif kind == "forc_untyped":
        pre = [asg(L(k), I(7))] if outer_k else []
        loop = ("forc", [asg(L(k), I(0))], Bn("<", L(k), I(rng.randint(0, 3))), [opa("+", L(k), I(1))], [pr(Sx("in"), L(k)), asg(L(x), I(5))])
    else:
        pre = [asg(L(k), I(7))] if outer_k else []
        loop = ("forc", [("decl", rng.choice(["int", "num", "var"]), k, I(0)), ("decl", "int", "j2", I(1))], Bn("<", L(k), I(rng.randint(0, 3))),
                [opa("+", L(k), I(1)), opa("*", L("j2"), I(2))], [pr(Sx("in"), L(k), L("j2")), asg(L(x), I(5))])
    post = [pr(Sx("after"), call("typeof", L(k)), L(k), call("typeof", L(v)), call("typeof", L(x)), call("typeof", L("j2")))]
    p, recs = where(rng, pre + [loop] + post)
    return {"runs": [(p, recs)]}


def by_value_arguments(rng):
    kind = rng.choice(["map", "arr"])
    empty = rng.random() < 0.35          # boundary: a collection with nothing in it is still passed / assigned by value
    if kind == "map":
        a = val(rng, "map") if not empty else ("map", [])
        mut = [asg(ix(L("c"), Sx(rng.choice(G.KEY_POOL))), val(rng)), ("unset", [ix(L("c"), Sx(rng.choice(G.KEY_POOL)))])]
        typ = rng.choice(["map", None])
    else:
        a = ("arr", [val(rng, "int") for _ in range(rng.randint(1, 4) if not empty else 0)])
        mut = [asg(ix(L("c"), I(1)), val(rng)), asg(ix(L("c"), Bn("+", call("length", L("c")), I(1))), val(rng))]
        typ = rng.choice(["arr", None])
    f = ("func", "mut", [(typ, "c")], typ, mut + [("return", L("c"))])
    s = ("subr", "smut", [(typ, "c")], mut + [pr(Sx("in subr"), call("length", L("c")))])
    main = [asg(L("orig"), a), asg(L("res"), ("ucall", "mut", [L("orig")])), ("call", "smut", [L("orig")]),
            pr(L("orig")), pr(L("res")),
            asg(L("alias"), L("orig")), asg(ix(L("alias"), I(1)), Sx("via alias")), pr(L("orig")), pr(L("alias"))]
    if rng.random() < 0.4:
        main = [asg(O("orig"), a), asg(O("copy"), O("orig")), asg(ix(O("copy"), I(1)), Sx("changed")), ("dump", None)] + main
    if rng.random() < 0.4:
        # a local taken from an out-of-stream variable (and the reverse) is a copy as well
        main += [asg(O("seen"), a), asg(L("snapshot"), O("seen")), asg(ix(L("snapshot"), I(1)), Sx("local copy")), asg(O("back"), L("snapshot")),
                 asg(ix(L("snapshot"), I(2)), Sx("after")), ("dump", None), pr(L("snapshot"))]
    return {"runs": [(P([f, s, ("end", main)]), [])]}


def oosvars_persist_and_private(rng):
    fld = rng.choice(["x", "y", "i"])
    recs = G.gen_records(rng, rng.randint(1, 6), hetero=rng.random() < 0.4)
    p1 = P([opa("+", O("sum"), F(fld)), opa("+", O("count"), I(1)), asg(F("running"), O("sum"))])
    p2 = P([asg(F("seen_sum"), call("typeof", O("sum"))), opa("+", O("count"), I(10)), asg(F("c2"), O("count")),
            ("end", [("emitf", ["count"])])])
    single = P([opa("+", O("sum"), F(fld)), asg(ix(O("last"), F("a")), F("i")), asg(F("running"), O("sum")),
                ("end", [("dump", None), ("emit", "emit", False, [O("sum")], [])])])
    # the same privacy between put and filter, in both orders: each keeps its own @count / @sum; the filter's decisions
    # depend on its own counter only
    k = rng.randint(1, 4)
    f_after = P([opa("+", O("count"), I(1)), asg(F("fc"), O("count")), asg(F("fsum"), call("typeof", O("sum"))),
                 ("bare", Bn("!=", Bn("%", O("count"), I(k + 1)), I(0)))], verb="filter", flags=["-x"] if rng.random() < 0.3 else [])
    f_before = P([opa("+", O("sum"), I(100)), opa("+", O("count"), I(7)), ("bare", Bn(rng.choice(["<", ">="]), O("count"), I(7 * k + 1)))], verb="filter")
    return {"runs": [({"chain": [p1, p2]}, recs), (single, recs), ({"chain": [p1, f_after]}, recs), ({"chain": [f_before, p2]}, recs)]}


def field_positions(rng):
    wide = rng.random() < 0.5
    recs = G.gen_records(rng, rng.randint(1, 4), hetero=rng.random() < 0.3, wide=wide)
    stmts = []
    old_names = ["x", "a", "i", "b", "y"] + (["w0", "w3", "w4", "w5"] if wide else [])
    for _ in range(rng.randint(2, 5) + (2 if wide else 0)):
        k = rng.random()
        if k < 0.35:
            stmts.append(asg(F(rng.choice(old_names)), val(rng)))
        elif k < 0.6:
            stmts.append(asg(F(rng.choice(["new1", "new2", "zz", "new3"])), val(rng)))
        elif k < 0.75:
            stmts.append(("unset", [F(rng.choice(["x", "a", "new1", "b"] + (["w1", "w4", "new2"] if wide else [])))]))
        elif k < 0.9:
            stmts.append(asg(("fieldx", Bn(".", Sx("c_"), F("a"))), ("ctx", "NF")))
        else:
            stmts.append(asg(F("nf"), ("ctx", "NF")))
    kind = rng.choice(["plain", "srec", "loopcopy", "posname", "localcopy"])
    if kind == "localcopy":
        # the same operations on a map-valued local / oosvar copy of the record, then written back
        m = rng.choice([L("m"), O("m")])
        stmts.append(asg(m, ("srec",)))
        for _ in range(rng.randint(2, 5)):
            k = rng.random()
            if k < 0.4:
                stmts.append(asg(ix(m, Sx(rng.choice(old_names + ["new1", "n5", "n6", "n7"]))), val(rng)))
            elif k < 0.7:
                stmts.append(("unset", [ix(m, Sx(rng.choice(old_names + ["new1", "n5"])))]))
            else:
                stmts.append(pr(call("haskey", m, Sx(rng.choice(old_names + ["n5", "n6"]))), call("length", m), ix(m, Sx(rng.choice(old_names)))))
        stmts.append(pr(call("joink", m, Sx(","))))
        stmts.append(asg(("srec",), rng.choice([m, call("mapdiff", m, ("map", [(Sx("a"), I(0))])), call("mapsum", ("map", [(Sx("first"), I(1))]), m)])))
        stmts.append(asg(F("after"), ("ctx", "NF")))
    elif kind == "srec":
        stmts.append(asg(("srec",), rng.choice([
            ("map", [(Sx("z"), I(1)), (Sx("a"), F("a")), (Sx("gone"), F("nosuch")), (Sx("i"), F("i"))]),
            call("mapsum", ("map", [(Sx("first"), ("ctx", "NR"))]), ("srec",)),
            call("mapexcept", ("srec",), Sx("a"))])))
        stmts.append(asg(F("after"), ("ctx", "NF")))
    elif kind == "loopcopy":
        stmts.append(("for2", (None, "k"), (None, "v"), ("srec",),
                      [asg(("fieldx", Bn(".", L("k"), Sx("_copy"))), L("v")), ("unset", [F("b")]), asg(F("i"), I(1000)),
                       pr(L("k"), L("v"), ("ctx", "NF"))]))
    elif kind == "posname":
        top = 6 if not wide else 14
        n = rng.randint(1, top)
        stmts.append(asg(("posname", I(n)), Sx(rng.choice(["renamed", "R"]))))
        stmts.append(asg(("posval", I(rng.randint(1, top))), val(rng)))
        stmts.append(pr(("posname", I(rng.randint(1, top + 1))), ("posval", I(rng.randint(1, top + 1)))))
        if rng.random() < 0.5:
            stmts.append(asg(F(rng.choice(["renamed", "R", "new3"])), val(rng)))
            stmts.append(pr(call("typeof", F("renamed")), call("typeof", F("R")), ("ctx", "NF")))
    # what a lookup by name finds afterwards, for names that were assigned, removed, renamed or never there
    probe = rng.sample(old_names + ["new1", "new2", "zz", "w1", "nosuch"], 5)
    stmts.append(pr(*[call("typeof", F(nm)) for nm in probe]))
    stmts.append(pr(*[call("haskey", ("srec",), Sx(nm)) for nm in probe]))
    return {"runs": [(P(stmts), recs)]}


def typed_declarations(rng):
    """type declarations are enforced at declaration and at every later assignment."""
    ty = rng.choice(["int", "str", "bool", "map", "arr", "num", "float", "funct"])
    kw = ty
    base = {"num": "int", "float": "int", "funct": "int"}.get(ty, ty)
    x, = names(rng, 1)
    good = val(rng, base)
    if ty == "float":
        good = Bn("/", I(7), I(2))
    if ty == "funct":
        good = ("funclit", [(None, "a")], None, [("return", Bn("+", L("a"), I(1)))])
    bad = wrong_val(rng, base) if ty not in ("float",) else I(3)
    where_bad = rng.choice(["decl", "later", "nested", "loop", "none", "none", "param", "return", "redeclare", "opassign", "indexed", "param_reassign"])
    stmts = []
    if where_bad == "decl":
        stmts = [pr(Sx("start")), ("decl", kw, x, bad), pr(Sx("unreachable"))]
    elif where_bad == "later":
        stmts = [("decl", kw, x, good), asg(L(x), bad), pr(Sx("unreachable"))]
    elif where_bad == "nested":
        stmts = [("decl", kw, x, good)] + block_kind(rng, None, [asg(L(x), bad)]) + [pr(Sx("unreachable"))]
    elif where_bad == "loop":
        stmts = [("decl", kw, x, good), ("forc", [asg(L("q"), I(0))], Bn("<", L("q"), I(3)), [opa("+", L("q"), I(1))],
                                         [("if", [(Bn("==", L("q"), I(rng.randint(0, 3))), [asg(L(x), bad)])], None), pr(Sx("iter"), L("q"))])]
    elif where_bad == "none":
        g2 = val(rng, base) if ty not in ("float", "funct") else good
        stmts = [("decl", kw, x, good)] + block_kind(rng, None, [asg(L(x), g2), ("decl", "var", x, bad), pr(Sx("shadow ok"))]) + [pr(Sx("fine"), call("typeof", L(x)))]
    elif where_bad == "param":
        ok = rng.random() < 0.5
        f = ("func", "tf", [(kw, "a")], None, [("return", I(1))])
        return {"runs": [(P([f, ("end", [pr(Sx("start")), pr(("ucall", "tf", [good if ok else bad])), pr(Sx("done"))])]), [])]}
    elif where_bad == "param_reassign":
        # "Type-checking is done at assignment time": a typed parameter keeps its type inside the body
        ok = rng.random() < 0.3
        g2 = val(rng, base) if ty not in ("float", "funct") else good
        body = [asg(L("a"), g2 if ok else bad), pr(Sx("after reassign"), call("typeof", L("a")))]
        if rng.random() < 0.6:
            prog = [("subr", "ts", [(kw, "a")], body), ("end", [pr(Sx("start")), ("call", "ts", [good]), pr(Sx("done"))])]
        else:
            prog = [("func", "tf", [(kw, "a")], None, body + [("return", I(1))]), ("end", [pr(Sx("start")), pr(("ucall", "tf", [good])), pr(Sx("done"))])]
        return {"runs": [(P(prog), [])]}
    elif where_bad == "return":
        ok = rng.random() < 0.4
        missing = rng.random() < 0.3
        body = [] if missing else [("return", good if ok else bad)]
        f = ("func", "tf", [(None, "a")], kw, [pr(Sx("in f"))] + body)
        return {"runs": [(P([f, ("end", [asg(L("r"), ("ucall", "tf", [I(1)])), pr(Sx("done"), call("typeof", L("r")))])]), [])]}
    elif where_bad == "redeclare":
        same_scope = rng.random() < 0.5
        if same_scope:
            stmts = [("decl", kw, x, good), ("decl", rng.choice(["var", kw]), x, good), pr(Sx("unreachable"))]
        else:
            stmts = [("decl", kw, x, good)] + block_kind(rng, None, [("decl", kw, x, good), pr(Sx("inner fine"))]) + [pr(Sx("fine"))]
    elif where_bad == "opassign":
        if base == "int":
            stmts = [("decl", kw, x, good), opa(".", L(x), Sx("s")), pr(Sx("unreachable"))] if ty != "funct" else [pr(Sx("skip"))]
            if ty == "float":
                stmts = [("decl", kw, x, good), opa("+", L(x), Bn("/", I(1), I(2))), pr(L(x))]
        elif base == "str":
            stmts = [("decl", kw, x, good), opa(".", L(x), I(3)), pr(L(x))]
        else:
            stmts = [("decl", kw, x, good), pr(call("typeof", L(x)))]
    else:
        if base == "map":
            stmts = [("decl", kw, x, good), asg(ix(L(x), Sx("k")), I(1)), pr(L(x)), ("unset", [L(x)]), asg(L(x), bad), pr(Sx("unreachable"))]
        elif base == "arr":
            stmts = [("decl", kw, x, good), asg(ix(L(x), Bn("+", call("length", L(x)), I(1))), I(1)), pr(L(x)), asg(L(x), bad), pr(Sx("unreachable"))]
        else:
            stmts = [("decl", kw, x, good), ("unset", [L(x)]), pr(call("typeof", L(x))), asg(L(x), bad), pr(Sx("unreachable"))]
    p, recs = where(rng, stmts)
    return {"runs": [(p, recs)]}


def indexing_shapes(rng):
    a = ("arr", [I(10 * (i + 1)) for i in range(rng.randint(0, 6))])
    n = len(a[1])
    stmts = [asg(L("a"), a)]
    for _ in range(rng.randint(2, 6)):
        k = rng.random()
        i = rng.choice([1, 2, n, n + 1, n + 2, n + 4, -1, -2, -n if n else -1, -(n + 1), 0, rng.randint(-8, 9)])
        if k < 0.3:
            stmts.append(pr(Sx("read"), I(i), call("typeof", ix(L("a"), I(i))), ix(L("a"), I(i))))
        elif k < 0.6:
            stmts.append(asg(ix(L("a"), I(i)), val(rng)))
            stmts.append(pr(L("a")))
        elif k < 0.8:
            lo = rng.choice([None, I(rng.randint(-7, 8))])
            hi = rng.choice([None, I(rng.randint(-7, 8))])
            stmts.append(pr(("slice", L("a"), lo, hi)))
        elif k < 0.9:
            stmts.append(("unset", [ix(L("a"), I(rng.choice([1, -1, 2, n if n else 1])))]))
            stmts.append(pr(L("a")))
        else:
            stmts.append(pr(call("haskey", L("a"), I(i)), call("length", L("a"))))
    p, recs = where(rng, stmts)
    return {"runs": [(p, recs)]}


def autocreate_shapes(rng):
    base = rng.choice([L("m"), O("m"), F("m")])
    stmts = []
    keys = [rng.choice([Sx(rng.choice(G.KEY_POOL)), I(rng.randint(1, 4)), F("a") if base[0] == "field" else Sx("k")]) for _ in range(rng.randint(1, 3))]
    stmts.append(asg(("index", base, keys), val(rng)))
    stmts.append(opa("+", ("index", base, keys[:-1] + [Sx("cnt")]), I(1)))
    stmts.append(opa("+", ("index", base, keys[:-1] + [Sx("cnt")]), I(2)))
    if rng.random() < 0.5:
        stmts.append(asg(("index", base, [I(3), I(1)]), Sx("int keys make maps")))
    if rng.random() < 0.5:
        stmts.append(asg(("index", base, [Sx("absentkey"), ("oos", "nosuch")]), I(1)))
        stmts.append(asg(("index", base, [Sx("absentval")]), ("oos", "nosuch")))
    if rng.random() < 0.5:
        stmts.append(("unset", [("index", base, keys)]))
    stmts.append(pr(base))
    stmts.append(pr(call("typeof", ("index", base, keys[:1])), call("typeof", ("index", base, [Sx("nope"), Sx("deeper")]))))
    if base[0] == "field":
        return {"runs": [(P(stmts), G.gen_records(rng, rng.randint(1, 3), hetero=False))]}
    if base[0] == "oos":
        stmts.append(("dump", None))
    return {"runs": [(P([("end", stmts)]), [])]}


def string_slices(rng):
    s = rng.choice(["abcde", "hello", "pan", "x", "miller6"])
    n = len(s)
    stmts = [asg(L("s"), Sx(s))]
    for _ in range(rng.randint(2, 5)):
        lo = rng.choice([None, I(rng.randint(1, n)), I(-rng.randint(1, n))])
        hi = rng.choice([None, I(rng.randint(1, n + 3)), I(-rng.randint(1, n))])
        stmts.append(pr(Bn(".", Bn(".", Sx("<"), ("slice", L("s"), lo, hi)), Sx(">"))))
    stmts.append(pr(ix(L("s"), I(rng.randint(1, n))), ix(L("s"), I(-rng.randint(1, n)))))
    return {"runs": [(P([("end", stmts)]), [])]}


def emit_family(rng):
    """emit / emitp, lashed or not, by 0..depth names, over accumulators of depth 1-3 built from the records."""
    depth = rng.choice([1, 2, 2, 3])
    keys = ["a", "b", "y"][:depth]
    recs = G.gen_records(rng, rng.randint(1, 8), hetero=False)
    idx = [F(k) for k in keys]
    acc = [opa("+", ("index", O("sum"), idx), F("x")), opa("+", ("index", O("count"), idx), I(1))]
    kind = rng.choice(["emit", "emitp"])
    lashed = rng.random() < 0.4
    nn = rng.randint(0, depth)
    nm = [Sx(n) for n in rng.sample(["g1", "g2", "g3"], nn)] if rng.random() < 0.5 else [Sx(k) for k in keys[:nn]]
    ems = [O("sum"), O("count")] if lashed else [O(rng.choice(["sum", "count"]))]
    if rng.random() < 0.2 and not lashed:
        ems = [L("loc")]
        endb = [asg(L("loc"), O("sum")), ("emit", kind, False, ems, nm)]
    else:
        endb = [("emit", kind, lashed, ems, nm)]
    if rng.random() < 0.3:
        endb.append(("dump", None))
    where_ = rng.choice(["end", "end", "main"])
    if where_ == "end":
        prog = acc + [("end", endb)]
        flags = ["-q"] if rng.random() < 0.7 else []
    else:
        prog = acc + endb
        flags = ["-q"]
    return {"runs": [(P(prog, flags=flags), recs)]}


def emit_other(rng):
    recs = G.gen_records(rng, rng.randint(1, 4), hetero=rng.random() < 0.3)
    kind = rng.choice(["emit1", "emitf", "emit_all", "emit_maplit", "emit_func", "emit_srec", "emit_scalar", "emitp_all", "emit_local_map"])
    pre = [opa("+", O("c"), I(1)), opa("+", O("s"), F("i")), asg(O("last"), F("a"))]
    if kind == "emit1":
        st = [("emit1", rng.choice([("map", [(Sx("nr"), ("ctx", "NR")), (Sx("a"), F("a"))]), call("mapsum", ("srec",), ("map", [(Sx("nr"), ("ctx", "NR"))])), ("srec",), O("rec")])),
              asg(O("rec"), ("srec",))]
    elif kind == "emitf":
        st = [("emitf", rng.sample(["c", "s", "last", "nosuch"], rng.randint(1, 3)))]
    elif kind == "emit_all":
        st = [("emit", "emit", False, [rng.choice([("oosall",), ("all",)])], [])]
    elif kind == "emitp_all":
        st = [asg(ix(O("m"), F("a")), F("i")), ("emit", "emitp", False, [rng.choice([("oosall",), ("all",)])], [])]
    elif kind == "emit_maplit":
        st = [("emit", rng.choice(["emit", "emitp"]), False, [("map", [(Sx("u"), F("i")), (Sx("w"), O("c"))])], [])]
    elif kind == "emit_func":
        st = [("emit", "emit", False, [rng.choice([call("mapsum", ("srec",), ("map", [(Sx("c"), O("c"))])), call("mapexcept", ("srec",), Sx("a")),
                                                   call("mapdiff", ("srec",), ("map", [(Sx("i"), I(0))]))])], [])]
    elif kind == "emit_srec":
        st = [("emit", "emit", False, [("srec",)], [])]
    elif kind == "emit_scalar":
        st = [("emit", rng.choice(["emit", "emitp"]), rng.random() < 0.5 and True, [O("c"), O("s")], [])]
        if not st[0][2]:
            st = [("emit", st[0][1], False, [O("c")], [])]
    else:
        st = [asg(L("mm"), ("map", [(Sx("p"), F("i")), (Sx("q"), F("a"))])), ("emit", rng.choice(["emit", "emitp"]), False, [L("mm")], [])]
    flags = ["-q"] if rng.random() < 0.6 else []
    if rng.random() < 0.3:
        return {"runs": [(P(pre + [("end", [s for s in st if "field" not in repr(s) and "srec" not in repr(s) and "NR" not in repr(s)] or [("dump", None)])], flags=flags), recs)]}
    return {"runs": [(P(pre + st, flags=flags), recs)]}


def filter_shapes(rng):
    recs = G.gen_records(rng, rng.randint(0, 8), hetero=False)
    cond = rng.choice([Bn(rng.choice(["<", ">", "==", "!=", ">="]), F(rng.choice(["x", "i", "y"])), I(rng.randint(0, 50))),
                       Bn("==", F("a"), Sx(rng.choice(G.KEY_POOL[:3]))), Bn("=~", F("a"), Sx(rng.choice(G.REGEXES))),
                       Bn("==", Bn("%", ("ctx", "NR"), I(2)), I(rng.randint(0, 1)))])
    kind = rng.choice(["put_filter", "put_filter_x", "put_q", "filter", "filter_x", "filter_assign", "put_filter_cond", "filter_multi_bare", "put_bare"])
    if kind == "put_filter":
        p = P([asg(F("n"), ("ctx", "NR")), ("filter", cond)])
    elif kind == "put_filter_x":
        p = P([("filter", cond), asg(F("n"), ("ctx", "NR"))], flags=["-x"])
    elif kind == "put_q":
        p = P([("cond", cond, [("emit1", ("map", [(Sx("kept"), F("i"))]))]), ("filter", ("bool", True))], flags=["-q"])
    elif kind == "filter":
        p = P([("bare", cond)], verb="filter")
    elif kind == "filter_x":
        p = P([("bare", cond)], verb="filter", flags=["-x"])
    elif kind == "filter_assign":
        p = P([asg(F("n"), ("ctx", "NR")), opa("+", O("c"), I(1)), ("bare", cond), ("end", [("emitf", ["c"])])], verb="filter")
    elif kind == "put_filter_cond":
        p = P([("cond", cond, [("filter", ("bool", False))]), asg(F("n"), I(1))])
    elif kind == "filter_multi_bare":
        p = P([("bare", ("bool", rng.random() < 0.5)), ("bare", cond), ("cond", Bn("==", ("ctx", "NR"), I(1)), [("bare", ("bool", rng.random() < 0.5))])], verb="filter")
    else:
        p = P([("bare", cond), asg(F("n"), I(1))])
    return {"runs": [(p, recs)]}


def hof_shapes(rng):
    x, = names(rng, 1)
    k = rng.randint(1, 5)
    arr = ("arr", [I(rng.randint(0, 30)) for _ in range(rng.randint(1, 6))])
    mp = ("map", [(Sx(s), I(rng.randint(0, 30))) for s in rng.sample(G.KEY_POOL, rng.randint(1, 4))])
    fl = lambda ps, e: ("funclit", [(None, p) for p in ps], None, [("return", e)])
    choices = [
        pr(call("apply", arr, fl(["e"], Bn(rng.choice(["+", "*", "-"]), L("e"), L(x))))),
        pr(call("select", arr, fl(["e"], Bn(rng.choice(["<", ">=", "!="]), L("e"), L(x))))),
        pr(call("reduce", arr, fl(["acc", "e"], Bn(rng.choice(["+", "*", "."]), L("acc"), L("e"))))),
        pr(call("fold", arr, fl(["acc", "e"], Bn("+", L("acc"), Bn("*", L("e"), L(x)))), I(rng.randint(0, 100)))),
        pr(call("sort", arr)), pr(call("sort", arr, Sx("r"))),
        pr(call("sort", ("arr", [I(v) for v in rng.sample(range(50), 5)]), fl(["a", "b"], Bn("<=>", L("b"), L("a"))))),
        pr(call("any", arr, fl(["e"], Bn("==", L("e"), L(x)))), call("every", arr, fl(["e"], Bn(">=", L("e"), I(0))))),
        pr(call("apply", mp, fl(["k", "v"], ("map", [(call("toupper", L("k")), Bn("+", L("v"), L(x)))])))),
        pr(call("select", mp, fl(["k", "v"], Bn(">", L("v"), L(x))))),
        pr(call("reduce", mp, fl(["ak", "av", "ek", "ev"], ("map", [(Bn(".", L("ak"), L("ek")), Bn("+", L("av"), L("ev")))])))),
        pr(call("fold", mp, fl(["ak", "av", "ek", "ev"], ("map", [(Sx("sum"), Bn("+", L("av"), L("ev")))])), ("map", [(Sx("sum"), L(x))]))),
        pr(call("sort", mp)), pr(call("sort", mp, fl(["ak", "av", "bk", "bv"], Bn("<=>", L("bk"), L("ak"))))),
        pr(call("any", mp, fl(["k", "v"], Bn("==", L("v"), L(x)))), call("every", mp, fl(["k", "v"], Bn("!=", L("k"), Sx("pan"))))),
    ]
    stmts = [asg(L(x), I(k))] + rng.sample(choices, rng.randint(1, 4))
    # a function literal bound to a local sees locals of the enclosing scope, also ones assigned after its creation
    stmts += [asg(L("f"), ("funclit", [(None, "s"), (None, "t")], None, [("if", [(Bn(">=", L("t"), L("cap")), [("return", Bn(".", L("s"), Sx(" above")))])], [("return", Bn(".", L("s"), Sx(" below")))])])),
              asg(L("cap"), I(rng.randint(0, 10))), pr(("lcall", "f", [Sx("v"), I(rng.randint(0, 10))]))]
    if rng.random() < 0.4:
        stmts += [asg(L("g"), ("tern", Bn(">", L(x), I(2)), L("f"), ("funclit", [(None, "s"), (None, "t")], None, [("return", Sx("other"))]))),
                  pr(("lcall", "g", [Sx("w"), I(3)]))]
    named = ("func", "twice", [(None, "e")], None, [("return", Bn("*", L("e"), I(2)))])
    prog = [("end", stmts)]
    if rng.random() < 0.4:
        prog = [named, ("end", stmts + [pr(call("apply", arr, L("twice")))])]
    return {"runs": [(P(prog), [])]}


def loop_copy_semantics(rng):
    """'The bound variables are bound to a copy of the sub-map as it was before the loop started' (control structures page)."""
    over = rng.choice(["local", "oosvar", "srec", "local_arr"])
    ks = rng.sample(G.KEY_POOL, rng.randint(2, 4))
    m = ("map", [(Sx(k), I(i + 1)) for i, k in enumerate(ks)])
    if over == "srec":
        body = [asg(F("added"), I(1)), ("unset", [F("b")]), asg(F("x"), I(0)), pr(L("k"), L("v"))]
        return {"runs": [(P([("for2", (None, "k"), (None, "v"), ("srec",), body)]), G.gen_records(rng, rng.randint(1, 3), hetero=False))]}
    if over == "local_arr":
        base = L("c")
        init = asg(base, ("arr", [I(i) for i in range(1, rng.randint(3, 5))]))
        mut = rng.choice([asg(ix(base, I(2)), I(99)), ("unset", [ix(base, I(-1))]), asg(ix(base, Bn("+", call("length", base), I(1))), I(7))])
        loop = ("for1", (None, "e"), base, [mut, pr(L("e"))])
        return {"runs": [(P([("end", [init, loop, pr(base)])]), [])]}
    base = L("c") if over == "local" else O("c")
    mut = rng.choice([asg(ix(base, Sx("added")), I(99)), ("unset", [ix(base, Sx(ks[-1]))]), asg(ix(base, Sx(ks[-1])), I(77))])
    form = rng.choice(["for2", "for1"])
    if form == "for2":
        loop = ("for2", (None, "k"), (None, "v"), base, [mut, pr(L("k"), L("v"))])
    else:
        loop = ("for1", (None, "k"), base, [mut, pr(L("k"))])
    return {"runs": [(P([("end", [asg(base, m), loop, pr(base)])]), [])], "sig": {"over": over}}


# ---- loops over collections whose elements are themselves maps / arrays ------------------------------------------
#
# 'The bound variables are bound to a copy of the sub-map as it was before the loop started' holds for every level of
# the looped-over collection: an assignment two or three levels deep into an element the loop has not reached yet, an
# unset there, a replaced / added / removed element or a re-assigned base variable must not change what the loop
# variables are bound to later, and assignments through the bound variable must not change the collection.

def sub(base, *idx):
    """base[idx...] with one flat index list (base may itself be an indexed variable)."""
    if base[0] == "index":
        return ("index", base[1], list(base[2]) + list(idx))
    return ("index", base, list(idx))


def _third(rng, kind):
    if kind == "map":
        return ("map", [(Sx("z"), I(rng.randint(0, 99))), (Sx("q"), I(rng.randint(0, 99)))])
    return ("arr", [I(rng.randint(0, 99)), I(rng.randint(0, 99))])


def _nested_elem(rng, inner, third):
    """One element of the looped-over collection: a map {"w":..,"s":..[,"d": third level]} or an array [.., ..[, third level]]."""
    a, b = I(rng.randint(0, 99)), I(rng.randint(0, 99))
    if inner == "map":
        items = [(Sx("w"), a), (Sx("s"), b)]
        if third:
            items.insert(rng.randint(0, 2), (Sx("d"), _third(rng, third)))
        return ("map", items)
    return ("arr", [a, b] + ([_third(rng, third)] if third else []))


def _inner_paths(rng, inner, third):
    """Index paths (below one element) that exist: [(path, is_third_level)]."""
    if inner == "map":
        out = [([Sx("w")], False), ([Sx("s")], False)]
        if third:
            out += [([Sx("d"), Sx("z") if third == "map" else I(rng.choice([1, 2, -1]))], True)] * 2
    else:
        out = [([I(1)], False), ([I(2)], False), ([I(-2) if not third else I(-3)], False)]
        if third:
            out += [([I(3), Sx("q") if third == "map" else I(rng.choice([1, 2, -1]))], True)] * 2
    return out


def _deep_mutation(rng, base, okey, inner, third, nkeys, outer):
    """One statement that changes the looped-over collection `base` at/below the element with outer index `okey`."""
    path, _ = rng.choice(_inner_paths(rng, inner, third))
    k = rng.random()
    if k < 0.34:
        return asg(sub(base, okey, *path), rng.choice([I(rng.randint(100, 999)), Sx(rng.choice(G.STR_POOL)), ("map", [(Sx("deep"), I(1))]), ("arr", [I(7)])]))
    if k < 0.46:
        return opa(rng.choice(["+", "*", "."]), sub(base, okey, *path), I(rng.randint(2, 9)))
    if k < 0.58:
        if inner == "map":
            return ("unset", [sub(base, okey, *path)])
        return ("unset", [sub(base, okey, I(rng.choice([1, 2])))])
    if k < 0.68:
        # a new key inside the element (maps) / an appended slot (arrays)
        if inner == "map":
            return asg(sub(base, okey, Sx("added")), val(rng))
        return asg(sub(base, okey, Bn("+", call("length", sub(base, okey)), I(1))), val(rng))
    if k < 0.80:
        # the whole element is replaced
        return asg(sub(base, okey), rng.choice([val(rng), _nested_elem(rng, inner, third), ("map", []), ("arr", [])]))
    if k < 0.88:
        return ("unset", [sub(base, okey)])
    if k < 0.95:
        # a new element
        if outer == "map":
            return asg(sub(base, Sx("fresh")), _nested_elem(rng, inner, third))
        return asg(sub(base, Bn("+", call("length", base), I(1))), _nested_elem(rng, inner, third))
    return asg(base, rng.choice([("map", []), ("map", [(Sx("only"), _nested_elem(rng, inner, third))])]))


def _nested_loop_program(rng, base, form):
    """-> (init statements, loop statement, statements after the loop).  The body counts iterations in `cnt`; at chosen
    iterations it changes elements (mostly ones that come later in iteration order), and every iteration prints the
    bound variables."""
    outer = "arr" if form == "for1arr" else rng.choice(["map", "map", "arr"]) if form in ("for2", "for1") else "map"
    inner = "map" if form.startswith("formulti") else rng.choice(["map", "map", "arr"])
    third = rng.choice([None, "map", "arr"]) if form != "formulti3" else "map"
    n = rng.randint(2, 5)
    if outer == "map":
        okeys = [Sx(s) for s in rng.sample(G.KEY_POOL, n)] if rng.random() < 0.7 else [I(v) for v in rng.sample(range(1, 9), n)]
        lit = ("map", [(ok, _nested_elem(rng, inner, third)) for ok in okeys])
    else:
        okeys = [I(i + 1) for i in range(n)]
        lit = ("arr", [_nested_elem(rng, inner, third) for _ in okeys])
    init = [asg(base, lit)] if base[0] != "index" else [asg(base[1], ("map", [(Sx("other"), I(1))])), asg(base, lit)]
    nmut = rng.choice([1, 1, 2, 3])
    body = [opa("+", L("cnt"), I(1))]
    for _ in range(nmut):
        at = rng.randint(1, n)            # iteration (1-up) at which the change happens
        if at < n and rng.random() < 0.7:
            tgt = okeys[rng.randint(at, n - 1)]                     # an element the loop has not reached yet
        else:
            tgt = rng.choice(okeys)
        if outer == "arr" and rng.random() < 0.15:
            tgt = I(-1)
        m = _deep_mutation(rng, base, tgt, inner, third, n, outer)
        if rng.random() < 0.2:
            body.append(("if", [(Bn(">=", L("cnt"), I(at)), [m])], None))
        else:
            body.append(("if", [(Bn("==", L("cnt"), I(at)), [m])], None))
    if form in ("for2", "for1arr"):
        v = "v" if form == "for2" else "e"
        if rng.random() < 0.35:
            # writing through the bound variable must not reach the collection
            path, _ = rng.choice(_inner_paths(rng, inner, third))
            body.append(asg(sub(L(v), *path), Sx("via loop variable")))
    if form == "for2":
        body.append(pr(L("cnt"), L("k")))
        body.append(pr(L("v")))
        loop = ("for2", (None, "k"), (None, "v"), base, body)
    elif form == "for1arr":
        body.append(pr(L("cnt")))
        body.append(pr(L("e")))
        loop = ("for1", (None, "e"), base, body)
    elif form == "for1":
        # single-variable loop over a map binds the key; over an array the element
        body.append(pr(L("cnt"), call("typeof", L("k"))))
        body.append(pr(L("k")))
        loop = ("for1", (None, "k"), base, body)
    elif form == "formulti2":
        body.append(pr(L("cnt"), L("k1"), L("k2")))
        body.append(pr(L("v")))
        loop = ("formulti", ["k1", "k2"], "v", base, body)
    else:
        body.append(pr(L("cnt"), L("k1"), L("k2"), L("k3")))
        body.append(pr(L("v")))
        loop = ("formulti", ["k1", "k2", "k3"], "v", base, body)
    return init, loop, [pr(Sx("after"), L("cnt")), pr(base if base[0] != "index" else base[1])]


def _loop_forms(rng):
    return rng.choice(["for2", "for2", "for2", "for1arr", "for1arr", "for1", "formulti2", "formulti2", "formulti3"])


def loop_snapshot_nested_local(rng):
    """loops over a local (or a parameter) whose elements are maps / arrays; the body changes elements in place."""
    runs = []
    for _ in range(3):
        form = _loop_forms(rng)
        base = rng.choice([L("c"), L("c"), sub(L("c"), Sx("sub"))])
        init, loop, post = _nested_loop_program(rng, base, form)
        where_ = rng.choice(["end", "func", "subr", "block"])
        if where_ == "func" and base[0] == "local":
            f = ("func", "walk", [(rng.choice([None, "map" if init[0][2][0] == "map" else "arr"]), "c")], None,
                 [asg(L("cnt"), I(0)), loop] + post + [("return", L("c"))])
            prog = [f, ("end", [asg(L("orig"), init[0][2]), asg(L("res"), ("ucall", "walk", [L("orig")])), pr(Sx("caller")), pr(L("orig")), pr(L("res"))])]
        elif where_ == "subr" and base[0] == "local":
            s = ("subr", "walk", [(None, "c")], [asg(L("cnt"), I(0)), loop] + post)
            prog = [s, ("end", [asg(L("orig"), init[0][2]), ("call", "walk", [L("orig")]), pr(Sx("caller")), pr(L("orig"))])]
        elif where_ == "block":
            prog = [("end", init + [asg(L("cnt"), I(0))] + block_kind(rng, None, [loop]) + post)]
        else:
            prog = [("end", init + [asg(L("cnt"), I(0)), loop] + post)]
        runs.append((P(prog), []))
    return {"runs": runs}


def loop_snapshot_nested_oosvar(rng):
    """the same over out-of-stream variables (also `for (... in @c["sub"])` and all-oosvars multi-key loops)."""
    runs = []
    for _ in range(3):
        form = _loop_forms(rng)
        base = rng.choice([O("c"), O("c"), sub(O("c"), Sx("sub"))])
        init, loop, post = _nested_loop_program(rng, base, form)
        tail = [("dump", None)] if rng.random() < 0.5 else []
        if rng.random() < 0.5:
            prog = [("end", init + [asg(L("cnt"), I(0)), loop] + post + tail)]
            runs.append((P(prog, flags=["-q"] if rng.random() < 0.5 else []), []))
        else:
            # the collection is set up in a begin block and walked (and changed) once per record
            prog = [("begin", init), asg(L("cnt"), I(0)), loop] + post + [("end", tail)]
            runs.append((P(prog, flags=["-q"] if rng.random() < 0.5 else []), G.gen_records(rng, rng.randint(1, 3), hetero=False)))
    return {"runs": runs}


def loop_snapshot_accumulated(rng):
    """the collection is accumulated from the records (`@c[$i] = {"w": $x, ...}` / `@c[$a][$b] = {...}`), the end block walks
    it while updating entries in place (the usual 'mark / adjust the other rows while iterating' idiom)."""
    runs = []
    for _ in range(3):
        recs = G.gen_records(rng, rng.randint(2, 7), hetero=False)
        two = rng.random() < 0.4
        elem = ("map", [(Sx("w"), F("x")), (Sx("seen"), I(0)), (Sx("tags"), ("arr", [F("y"), F("a")]))])
        acc = asg(ix(O("c"), F("a"), F("i")) if two else ix(O("c"), F("i")), elem)
        tgt = I(rng.randint(1, len(recs)))
        tgt_path = [Sx(recs[tgt[1] - 1]["a"]), tgt] if two else [tgt]
        mut = rng.choice([asg(ix(O("c"), *tgt_path, Sx("w")), I(700)), opa("+", ix(O("c"), *tgt_path, Sx("w")), I(1000)),
                          asg(ix(O("c"), *tgt_path, Sx("tags"), I(1)), Sx("T")), ("unset", [ix(O("c"), *tgt_path, Sx("seen"))]),
                          asg(ix(O("c"), *tgt_path, Sx("tags"), I(3)), Sx("appended")),
                          asg(ix(O("c"), *tgt_path), ("map", [(Sx("w"), I(-1)), (Sx("seen"), I(5)), (Sx("tags"), ("arr", []))]))])
        at = rng.randint(1, max(1, tgt[1] - 1)) if rng.random() < 0.7 else rng.randint(1, len(recs))
        body = [opa("+", L("cnt"), I(1)), ("if", [(Bn("==", L("cnt"), I(at)), [mut])], None)]
        if two:
            body += [asg(ix(O("c"), L("k1"), L("k2"), Sx("seen")), I(1)), pr(L("cnt"), L("k1"), L("k2")), pr(L("v"))]
            loop = ("formulti", ["k1", "k2"], "v", O("c"), body)
            if rng.random() < 0.5:
                inner_body = [opa("+", L("cnt"), I(1)), ("if", [(Bn("==", L("cnt"), I(at)), [mut])], None),
                              asg(ix(O("c"), L("k1"), L("k2"), Sx("seen")), I(1)), pr(L("cnt"), L("k1"), L("k2")), pr(L("v"))]
                loop = ("for2", (None, "k1"), (None, "m"), O("c"), [("for2", (None, "k2"), (None, "v"), L("m"), inner_body)])
        else:
            body += [asg(ix(O("c"), L("k"), Sx("seen")), I(1)), pr(L("cnt"), L("k")), pr(L("v"))]
            loop = ("for2", (None, "k"), (None, "v"), O("c"), body)
        names = [Sx("a"), Sx("id")] if two else [Sx("id")]
        tail = rng.choice([[("emit", "emit", False, [O("c")], names[:rng.randint(0, len(names))])], [("dump", None)], [pr(O("c"))]])
        prog = [acc, ("end", [asg(L("cnt"), I(0)), loop] + tail)]
        runs.append((P(prog, flags=["-q"]), recs))
    return {"runs": runs}


def deep_nesting_many_locals(rng):
    """block scoping beyond the interpreter's pre-sized structures: 6-10 nested blocks, each declaring two locals and
    updating one of an enclosing block; 11-18 locals in one scope (also in a recursive function body)."""
    if rng.random() < 0.5:
        depth = rng.randint(6, 10)
        upd = rng.randint(1, depth - 1)
        body = [pr(Sx("innermost"), *[L("p%d" % l) for l in range(1, depth + 1)][-6:]),
                asg(L("p%d" % upd), I(1000 + upd)), asg(L("q%d" % rng.randint(1, depth)), I(2000))]
        for lvl in range(depth, 0, -1):
            pre = [("decl", rng.choice(["var", "int", "num"]), "p%d" % lvl, I(lvl * 10)),
                   asg(L("q%d" % lvl), Bn("+", L("p%d" % (lvl - 1)), I(1)) if lvl > 1 else I(1))]
            post = [pr(Sx("level%d" % lvl), L("p%d" % lvl), L("q%d" % lvl), call("typeof", L("p%d" % (lvl + 1))), call("typeof", L("q%d" % (lvl + 1))))]
            body = block_kind(rng, None, pre + body + post)
        stmts = body + [pr(Sx("top"), call("typeof", L("p1")), call("typeof", L("q1")))]
        p, recs = where(rng, stmts)
        return {"runs": [(p, recs)]}
    n = rng.randint(11, 18)
    decls = []
    for i in range(n):
        e = I(i) if i < 2 else Bn(rng.choice(["+", "-"]), L("v%d" % rng.randint(0, i - 1)), I(i))
        decls.append(("decl", rng.choice(["var", "int", "num"]), "v%d" % i, e) if rng.random() < 0.6 else asg(L("v%d" % i), e))
    use = [pr(*[L("v%d" % i) for i in range(k, min(n, k + 6))]) for k in range(0, n, 6)]
    inner = block_kind(rng, None, [("decl", "var", "v%d" % rng.randint(0, n - 1), Sx("shadow")), asg(L("v%d" % rng.randint(0, n - 1)), I(-1)),
                                   asg(L("extra"), I(5)), pr(*[L("v%d" % i) for i in range(max(0, n - 6), n)])])
    if rng.random() < 0.5:
        stmts = decls + use + inner + use + [pr(call("typeof", L("extra")))]
        p, recs = where(rng, stmts)
        return {"runs": [(p, recs)]}
    # the same in a recursive function: every activation has its own n locals
    fbody = [("if", [(Bn("<=", L("d"), I(0)), [("return", I(0))])], None)] + decls + \
            [asg(L("v1"), L("d")), asg(L("below"), ("ucall", "many", [Bn("-", L("d"), I(1))]))] + use + inner + \
            [("return", Bn("+", L("v1"), L("below")))]
    f = ("func", "many", [(None, "d")], None, fbody)
    return {"runs": [(P([f, ("end", [pr(("ucall", "many", [I(rng.randint(1, 4))]))])]), [])]}


def for_typed_bind_variables(rng):
    """reference-dsl-variables.md: `for (str k, v in $*)` - 'k is explicitly str; v is implicitly var'."""
    m = ("map", [(Sx(k), I(i)) for i, k in enumerate(rng.sample(G.KEY_POOL, 2))])
    kt, vt = rng.choice([("str", None), ("str", "int"), (None, "int"), ("var", "var")])
    loop = ("for2", (kt, "k"), (vt, "v"), m, [pr(L("k"), L("v"))])
    return {"runs": [(P([("end", [loop])]), [])]}


def for_parenthesized_single_key(rng):
    """reference-dsl-control-structures.md: 'Single-level keys may be obtained using either for(k,v) or for((k),v)'."""
    m = ("map", [(Sx(k), I(i)) for i, k in enumerate(rng.sample(G.KEY_POOL, 2))])
    loop = ("formulti", ["k"], "v", m, [pr(L("k"), L("v"))])
    return {"runs": [(P([("end", [loop])]), [])]}


def unset_shapes(rng):
    recs = G.gen_records(rng, rng.randint(1, 3), hetero=False)
    x, = names(rng, 1)
    stmts = [asg(L(x), val(rng)), ("unset", [L(x)]), pr(Sx("local"), call("typeof", L(x))),
             asg(ix(O("m"), F("a"), F("b")), F("i")), ("unset", [ix(O("m"), F("a"), F("b"))]), pr(O("m")),
             ("unset", [F(rng.choice(["x", "a", "nosuch"])), F("y")]), asg(F("nf"), ("ctx", "NF"))]
    if rng.random() < 0.4:
        stmts += [("unset", [rng.choice([("oosall",), ("all",)])]), ("dump", None)]
    if rng.random() < 0.4:
        stmts += [asg(L("lst"), ("arr", [I(1), I(2), I(3), I(4)])), ("unset", [ix(L("lst"), I(rng.choice([1, 2, -1])))]), pr(L("lst"))]
    if rng.random() < 0.3:
        stmts += [("unset", [("fieldx", Sx("i"))]), pr(("ctx", "NF"))]
    if rng.random() < 0.4:
        # an unset local is absent again: indexing it auto-creates a map, "even if keys are integers"
        k = rng.choice([I(1), I(2), Sx("k")])
        stmts += [asg(L("again"), val(rng)), ("unset", [L("again")]), asg(ix(L("again"), k), val(rng)), pr(L("again")),
                  pr(call("typeof", O("nosuch")), call("typeof", Sx("")), Bn("==", I(1), I(1)))]
    return {"runs": [(P(stmts), recs)]}


def unset_local_scoping(rng):
    """`unset` of a local clears its value, not its binding: the name stays bound in the scope that holds it (a later
    undeclared assignment from a nested block updates that binding, a shadowing `var` keeps shadowing) and keeps its
    declared type (a later assignment of another type, or a second declaration in that scope, must fail)."""
    x, y = names(rng, 2)
    ty = rng.choice(["int", "str", "bool", "map"])
    v = [val(rng, ty) for _ in range(4)]
    kind = rng.choice(["nested_reassign", "nested_reassign", "shadow_unset", "shadow_unset", "typed_wrong", "typed_ok", "redeclare", "param"])

    def nest(body, depth):
        for _ in range(depth):
            body = block_kind(rng, None, body)
        return body
    depth = rng.choice([1, 1, 2, 3])
    if kind == "nested_reassign":
        outer = rng.choice([asg(L(x), v[0]), ("decl", rng.choice(TYPES_FOR[ty]), x, v[0])])
        inner = [("unset", [L(x)]), pr(Sx("inner after unset"), call("typeof", L(x)))]
        if rng.random() < 0.8:
            inner += [asg(L(x), v[1]), pr(Sx("inner after reassign"), L(x))]
        stmts = [outer] + nest(inner, depth) + [pr(Sx("outer"), call("typeof", L(x))), pr(L(x)) if ty != "map" else pr(call("length", L(x)))]
        if rng.random() < 0.5:
            stmts += [asg(L(x), v[2]), pr(Sx("outer again"), L(x))]
    elif kind == "shadow_unset":
        inner = [("decl", "var", x, v[1]), ("unset", [L(x)]), pr(Sx("shadow after unset"), call("typeof", L(x)))]
        if rng.random() < 0.7:
            inner += nest([asg(L(x), v[2]), pr(Sx("deep"), L(x))], rng.choice([0, 1, 2])) + [pr(Sx("shadow"), L(x))]
        stmts = [asg(L(x), v[0])] + nest(inner, depth) + [pr(Sx("outer"), L(x))]
    elif kind == "typed_wrong":
        kw = rng.choice([t for t in TYPES_FOR[ty] if t != "var"])
        stmts = [("decl", kw, x, v[0]), pr(Sx("start"))] + nest([("unset", [L(x)])], rng.choice([0, 1, 2])) + \
                nest([asg(L(x), wrong_val(rng, ty)), pr(Sx("unreachable"))], rng.choice([0, 1, 2]))
    elif kind == "typed_ok":
        kw = rng.choice(TYPES_FOR[ty])
        stmts = [("decl", kw, x, v[0])] + nest([("unset", [L(x)])], rng.choice([0, 1, 2])) + nest([asg(L(x), v[1])], rng.choice([0, 1, 2])) + \
                [pr(Sx("outer"), call("typeof", L(x))), pr(L(x)) if ty != "map" else pr(call("length", L(x)))]
    elif kind == "redeclare":
        stmts = [("decl", rng.choice(TYPES_FOR[ty]), x, v[0]), pr(Sx("start")), ("unset", [L(x)]), ("decl", rng.choice(TYPES_FOR[ty]), x, v[1]), pr(Sx("unreachable"))]
    else:
        # a parameter unset in a nested block of the body and assigned again
        body = nest([("unset", [L("a")]), asg(L("a"), v[1])], depth) + [pr(Sx("in f"), call("typeof", L("a"))), ("return", L("a"))]
        f = ("func", "uf", [(rng.choice([None] + TYPES_FOR[ty]), "a")], None, body)
        return {"runs": [(P([f, ("end", [asg(L(y), ("ucall", "uf", [v[0]])), pr(Sx("result"), call("typeof", L(y))), pr(L(y)) if ty != "map" else pr(call("length", L(y)))])]), [])]}
    p, recs = where(rng, stmts)
    return {"runs": [(p, recs)]}


def begin_end_order(rng):
    recs = G.gen_records(rng, rng.randint(0, 3), hetero=False)
    items = [("begin", [pr(Sx("begin1")), asg(O("b"), I(1))]), opa("+", O("n"), I(1)), ("end", [pr(Sx("end1"), O("n"), O("b"))]),
             ("begin", [pr(Sx("begin2")), opa("+", O("b"), I(10))]), ("end", [pr(Sx("end2"), ("ucall", "late", [O("b")]))]),
             ("func", "late", [(None, "q")], None, [("return", Bn("*", L("q"), I(3)))]), pr(Sx("rec"), ("ctx", "NR"))]
    rng.shuffle(items)
    return {"runs": [(P(items, flags=["-q"] if rng.random() < 0.5 else []), recs)]}


def positional_names(rng):
    recs = G.gen_records(rng, rng.randint(1, 4), hetero=rng.random() < 0.5)
    stmts = []
    for _ in range(rng.randint(1, 4)):
        n = rng.choice([1, 2, 3, 5, 6, 9, 0, -1])
        k = rng.random()
        if k < 0.3:
            stmts.append(asg(("posname", I(n)), Sx(rng.choice(["P", "Q q", "newname"]))))
        elif k < 0.6:
            stmts.append(asg(("posval", I(n)), val(rng)))
        elif k < 0.8:
            stmts.append(asg(F("out%d" % len(stmts)), rng.choice([("posname", I(n)), ("posval", I(n)), ("posname", ("ctx", "NR")), ("posval", ("ctx", "NR"))])))
        else:
            stmts.append(pr(call("typeof", ("posname", I(n))), call("typeof", ("posval", I(n)))))
    return {"runs": [(P(stmts), recs)]}


def break_continue_nested(rng):
    a, b = rng.randint(1, 4), rng.randint(1, 4)
    bi, bj = rng.randint(0, 4), rng.randint(0, 4)
    inner_kind = rng.choice(["forc", "for1", "while"])
    brk = rng.choice(["break", "continue"])
    inner_body = [("if", [(Bn("==", L("j"), I(bj)), [("if", [(("bool", True), [(brk,)])], None)])], None), pr(Sx("inner"), L("i"), L("j"))]
    if inner_kind == "forc":
        inner = [("forc", [asg(L("j"), I(0))], Bn("<", L("j"), I(b)), [opa("+", L("j"), I(1))], inner_body)]
    elif inner_kind == "for1":
        inner = [("for1", (None, "j"), ("arr", [I(v) for v in range(b)]), inner_body)]
    else:
        inner = [asg(L("j"), I(-1)), ("while", Bn("<", L("j"), I(b - 1)), [opa("+", L("j"), I(1))] + inner_body)]
    outer_body = inner + [("if", [(Bn("==", L("i"), I(bi)), [(rng.choice(["break", "continue"]),)])], None), pr(Sx("outer"), L("i"))]
    outer = ("forc", [("decl", "int", "i", I(0))], Bn("<", L("i"), I(a)), [opa("+", L("i"), I(1))], outer_body)
    dw = ("dowhile", [pr(Sx("once")), ("if", [(("bool", rng.random() < 0.5), [("break",)])], None), pr(Sx("not broken"))], ("bool", False))
    wh = ("while", ("bool", False), [pr(Sx("never"))])
    p, recs = where(rng, [outer, dw, wh])
    return {"runs": [(p, recs)]}


def absent_rules(rng):
    recs = G.gen_records(rng, rng.randint(1, 4), hetero=True)
    stmts = [asg(F("n1"), F("nosuch")), asg(O("o1"), F("nosuch")), asg(L("l1"), F("nosuch")),
             pr(call("typeof", F("n1")), call("typeof", O("o1")), call("typeof", L("l1"))),
             opa("+", O("sum"), F("x")), opa("*", O("prod"), Bn("??", F("y"), I(1))), opa(".", O("cat"), F("b")),
             asg(O("mx"), call("max", O("mx"), F("x"))), asg(O("mn"), call("min", O("mn"), F("x"))),
             asg(F("s"), Bn("+", F("x"), F("y"))), asg(F("d"), Bn("+", F("nosuch1"), F("nosuch2"))),
             asg(F("c"), Bn("??", F("nosuch"), Sx("dflt"))), asg(F("e"), Bn("???", F("nosuch"), Sx("dflt"))),
             asg(F("p"), call("is_present", F("x"))), asg(F("q"), Bn("&&", call("is_present", F("x")), Bn(">", F("x"), I(10)))),
             asg(ix(O("bykey"), F("b")), F("x")),
             ("end", [("dump", None)])]
    keep = [s for s in stmts[:-1] if rng.random() < 0.7] + [stmts[-1]]
    return {"runs": [(P(keep), recs)]}


def op_assignments(rng):
    ops_int = ["+", "-", "*", "//", "%", "**", "&", "|", "^", "<<", ">>", ">>>", "??", "???"]
    lvk = rng.choice(["local", "oos", "field", "index_local", "index_oos"])
    lv = {"local": L("t"), "oos": O("t"), "field": F("t"), "index_local": ix(L("mm"), Sx("k")), "index_oos": ix(O("mm"), Sx("k"), I(2))}[lvk]
    stmts = [asg(lv, I(rng.randint(1, 40)))]
    for _ in range(rng.randint(2, 6)):
        op = rng.choice(ops_int)
        r = I(rng.randint(1, 5)) if op in ("//", "%", "<<", ">>", ">>>", "**") else I(rng.randint(0, 30))
        stmts.append(opa(op, lv, r))
        stmts.append(pr(Sx(op + "="), ("index", lv[1], lv[2]) if lv[0] == "index" else lv))
    stmts += [asg(L("s"), Sx("ab")), opa(".", L("s"), Sx("cd")), opa(".", L("s"), I(5)), pr(L("s")),
              asg(L("b"), ("bool", True)), opa("&&", L("b"), ("bool", rng.random() < 0.5)), opa("||", L("b"), ("bool", rng.random() < 0.5)), opa("^^", L("b"), ("bool", True)), pr(L("b")),
              opa("??", L("fresh"), I(4)), opa("??", L("fresh"), I(5)), pr(L("fresh")),
              opa("min", L("lo"), I(3)) if False else pr(Sx("done"))]
    if lvk == "field":
        return {"runs": [(P(stmts), G.gen_records(rng, 2, hetero=False))]}
    return {"runs": [(P([("end", stmts)]), [])]}


def presets(rng):
    recs = G.gen_records(rng, rng.randint(1, 3), hetero=False)
    v = rng.randint(1, 99)
    s = rng.choice(["abc", "pan"])
    p = P([asg(F("z"), Bn("+", O("foo"), F("i"))), asg(F("w"), Bn(".", O("bar"), Sx("x"))), asg(F("t"), call("typeof", O("foo"))), opa("+", O("foo"), I(1))],
          presets=[("foo", v), ("bar", s)])
    return {"runs": [(p, recs)]}


def dot_and_types(rng):
    a, b = rng.randint(0, 99), rng.randint(0, 99)
    stmts = [asg(L("d"), Bn(".", I(a), I(b))), pr(L("d"), call("typeof", L("d"))),
             asg(L("e"), Bn(".", Sx("n"), I(a))), pr(L("e")),
             pr(Bn("<", I(10), I(9)), Bn("<", Sx("10"), Sx("9")), Bn("<", I(10), Sx("9")), Bn("<", Sx("abc"), I(5))),
             pr(Bn("/", I(6), I(2)), Bn("/", I(7), I(2)), Bn("//", I(7), I(2)), Bn("//", I(-7), I(2)), Bn("%", I(-7), I(5)), Bn("**", I(2), I(10))),
             pr(call("typeof", Bn("/", I(6), I(2))), call("typeof", Bn("/", I(7), I(2))), call("typeof", ("map", [])), call("typeof", ("arr", [])), call("typeof", Sx(""))),
             pr(call("asserting_int", I(a))), pr(call("asserting_string", I(b)) if rng.random() < 0.3 else Sx("no assert"))]
    return {"runs": [(P([("end", stmts)]), [])]}


def map_literals_and_copies(rng):
    stmts = [asg(L("m"), ("map", [(Sx("a"), I(1)), (I(3), Sx("three")), (Sx("nested"), ("map", [(Sx("x"), ("arr", [I(1), I(2)]))])), (Sx("gone"), O("nosuch")), (Sx("a"), I(2))])),
             pr(L("m")), pr(ix(L("m"), I(3)), ix(L("m"), Sx("3")), ix(L("m"), Sx("nested"), Sx("x"), I(-1))),
             asg(L("c"), L("m")), asg(ix(L("c"), Sx("nested"), Sx("x"), I(1)), Sx("changed")), pr(ix(L("m"), Sx("nested"), Sx("x"))), pr(ix(L("c"), Sx("nested"), Sx("x"))),
             asg(ix(L("m"), Sx("z")), I(26)), asg(ix(L("m"), Sx("a")), I(0)), pr(call("joink", L("m"), Sx(","))),
             pr(call("length", L("m")), call("depth", L("m")), call("leafcount", L("m")), call("haskey", L("m"), I(3)), call("haskey", L("m"), Sx("q"))),
             pr(call("mapdiff", L("m"), ("map", [(Sx("a"), I(0))]))), pr(call("mapsum", ("map", [(Sx("z"), I(0)), (Sx("first"), I(1))]), L("m"))),
             pr(call("get_keys", L("m"))), pr(call("mapselect", L("m"), Sx("a"), Sx("z"))), pr(call("mapexcept", L("m"), ("arr", [Sx("nested"), I(3)])))]
    keep = stmts[:2] + [s for s in stmts[2:] if rng.random() < 0.75]
    return {"runs": [(P([("end", keep)]), [])]}


def parameter_redeclaration(rng):
    """reference-dsl-variables.md: 'subr s(a, str b, int c) { var b = 100; # error  # Re-declaration in the same scope is disallowed';
    a declaration in a nested block of the body is an ordinary shadow."""
    kw = rng.choice(["var", "int", "num"])
    nested = rng.random() < 0.4
    decl = ("decl", kw, "b", I(rng.randint(0, 99)))
    inner = [("if", [(("bool", True), [decl, pr(Sx("shadow"), L("b"))])], None)] if nested else [decl]
    body = [pr(Sx("in"), L("b"))] + inner + [pr(Sx("after"), L("b"))]
    if rng.random() < 0.5:
        prog = [("subr", "s", [(None, "a"), (rng.choice([None, "int"]), "b")], body), ("end", [pr(Sx("start")), ("call", "s", [I(1), I(2)]), pr(Sx("done"))])]
    else:
        prog = [("func", "f", [(None, "a"), (rng.choice([None, "int"]), "b")], None, body + [("return", L("b"))]),
                ("end", [pr(Sx("start")), pr(("ucall", "f", [I(1), I(2)])), pr(Sx("done"))])]
    return {"runs": [(P(prog), [])]}


def positional_rename_then_access(rng):
    """after `$[[n]] = "new"` the field is known by its new name only (reference-dsl-variables.md, positional field names)."""
    recs = G.gen_records(rng, rng.randint(1, 3), hetero=False, wide=rng.random() < 0.5)
    n = rng.randint(1, min(len(r) for r in recs))
    old = list(recs[0].keys())[n - 1]
    same_order = all(list(r.keys()) == list(recs[0].keys()) for r in recs)
    if not same_order:
        recs = recs[:1]
    stmts = []
    if rng.random() < 0.6:
        # a lookup by name before the rename (a record with a key index has it built by now)
        stmts.append(rng.choice([asg(F("pre"), call("typeof", F(old))), asg(L("before"), F(rng.choice(["a", "i", old]))), asg(F(old), F(old))]))
    stmts.append(asg(("posname", I(n)), Sx("renamed")))
    choices = [asg(F("copy_old"), F(old)), asg(F("copy_new"), F("renamed")), asg(F(old), I(77)), ("unset", [F(old)]),
               pr(call("typeof", F(old)), call("typeof", F("renamed"))), asg(F("renamed"), Sx("v")), asg(F("nf"), ("ctx", "NF")),
               pr(call("haskey", ("srec",), Sx(old)), call("haskey", ("srec",), Sx("renamed")))]
    stmts += rng.sample(choices, rng.randint(1, 4))
    return {"runs": [(P(stmts), recs)]}


def self_referential_indexed_assignment(rng):
    base = rng.choice([L("m"), O("m")])
    init = rng.choice([("map", []), ("map", [(Sx("a"), I(1))])])
    keys = [Sx("k"), I(rng.randint(1, 3)), Sx("z")][:rng.choice([1, 2, 2, 3])]
    rhs = rng.choice([base, call("mapsum", base, ("map", [])), call("mapdiff", base), ("map", [(Sx("copy"), base)])])
    stmts = [asg(base, init), asg(("index", base, keys), rhs), pr(base)]
    return {"runs": [(P([("end", stmts)]), [])]}


def _ack(typed):
    t = "int" if typed else None
    return ("func", "ack", [(t, "m"), (t, "n")], t,
            [("if", [(Bn("==", L("m"), I(0)), [("return", Bn("+", L("n"), I(1)))])], None),
             ("if", [(Bn("==", L("n"), I(0)), [("return", ("ucall", "ack", [Bn("-", L("m"), I(1)), I(1)]))])], None),
             ("return", ("ucall", "ack", [Bn("-", L("m"), I(1)), ("ucall", "ack", [L("m"), Bn("-", L("n"), I(1))])]))])


def _tak(typed, ret):
    t = "int" if typed else None
    rec = lambda a, b, c: ("ucall", "tak", [a, b, c])
    x, y, z = L("x"), L("y"), L("z")
    return ("func", "tak", [(t, "x"), (t, "y"), (t, "z")], t,
            [("if", [(Bn(">=", y, x), [("return", L(ret))])], None),
             ("return", rec(rec(Bn("-", x, I(1)), y, z), rec(Bn("-", y, I(1)), z, x), rec(Bn("-", z, I(1)), x, y)))])


def nested_recursion(rng):
    """each call sees exactly the argument values computed at its own callsite, also when evaluating a later argument
    re-enters the same callsite (Ackermann, Takeuchi, generic f(a-1, f(a-1, b)) shapes, mutual pairs, subr form,
    calls from higher-order-function callbacks)."""
    kind = rng.choice(["ack", "tak", "gen2", "gen3", "mutual", "subr", "hof", "funclit"])
    typed = rng.random() < 0.5
    k1, k2 = rng.randint(1, 4), rng.randint(0, 3)
    op = rng.choice(["+", "-", "*"])
    fl = lambda ps, e: ("funclit", [(None, q) for q in ps], None, [("return", e)])
    recs = None
    if kind == "ack":
        defs = [_ack(typed)]
        calls = [("ucall", "ack", [I(rng.randint(0, 2)), I(rng.randint(0, 3))]) for _ in range(rng.randint(1, 3))]
        recs = [{"m": rng.randint(0, 2), "n": rng.randint(0, 3)} for _ in range(rng.randint(1, 4))]
        main = [asg(F("a"), ("ucall", "ack", [F("m"), F("n")]))]
    elif kind == "tak":
        defs = [_tak(typed, rng.choice(["z", "y"]))]
        calls = [("ucall", "tak", [I(rng.randint(0, 4)), I(rng.randint(0, 3)), I(rng.randint(0, 2))]) for _ in range(rng.randint(1, 3))]
    elif kind == "gen2":
        t = "int" if typed else None
        inner = ("ucall", "g", [Bn("-", L("a"), I(1)), Bn(op, L("b"), I(k1))])
        shape = rng.choice([0, 1, 2])
        if shape == 0:
            ret = ("ucall", "g", [Bn("-", L("a"), I(1)), inner])                                   # g(a-1, g(a-1, b op k))
        elif shape == 1:
            ret = Bn("+", ("ucall", "g", [Bn("-", L("a"), I(1)), inner]), L("a"))
        else:
            ret = ("ucall", "g", [Bn("-", L("a"), I(1)), Bn("+", inner, ("ucall", "g", [Bn("-", L("a"), I(2)), L("a")]))])
        defs = [("func", "g", [(t, "a"), (t, "b")], t,
                 [("if", [(Bn("<=", L("a"), I(0)), [("return", Bn("+", L("b"), I(k2)))])], None),
                  ("decl", "var", "keep", Bn("*", L("a"), I(10))), ("return", Bn("+", ret, Bn("-", L("keep"), Bn("*", L("a"), I(10)))))])]
        calls = [("ucall", "g", [I(rng.randint(0, 4)), I(rng.randint(0, 9))]) for _ in range(rng.randint(1, 3))]
    elif kind == "gen3":
        inner = ("ucall", "h", [Bn("-", L("a"), I(1)), L("c"), Bn("+", L("b"), I(k1))])
        outer = rng.choice([("ucall", "h", [Bn("-", L("a"), I(1)), L("b"), inner]),
                            ("ucall", "h", [Bn("-", L("a"), I(1)), inner, L("c")]),
                            ("ucall", "h", [Bn("-", L("a"), I(1)), inner, ("ucall", "h", [Bn("-", L("a"), I(1)), L("b"), L("c")])])])
        defs = [("func", "h", [(None, "a"), (None, "b"), (None, "c")], None,
                 [("if", [(Bn("<=", L("a"), I(0)), [("return", Bn(op, Bn("*", L("b"), I(2)), L("c")))])], None), ("return", outer)])]
        calls = [("ucall", "h", [I(rng.randint(0, 3)), I(rng.randint(0, 5)), I(rng.randint(0, 5))]) for _ in range(rng.randint(1, 3))]
    elif kind == "mutual":
        defs = [("func", "p", [(None, "a"), (None, "b")], None,
                 [("if", [(Bn("<=", L("a"), I(0)), [("return", L("b"))])], None),
                  ("return", ("ucall", "q", [Bn("-", L("a"), I(1)), ("ucall", "p", [Bn("-", L("a"), I(1)), Bn("+", L("b"), I(k1))])]))]),
                ("func", "q", [(None, "a"), (None, "b")], None,
                 [("if", [(Bn("<=", L("a"), I(0)), [("return", Bn("*", L("b"), I(2)))])], None),
                  ("return", ("ucall", "p", [Bn("-", L("a"), I(1)), Bn("+", ("ucall", "q", [Bn("-", L("a"), I(1)), L("b")]), I(1))]))])]
        rng.shuffle(defs)
        calls = [("ucall", rng.choice(["p", "q"]), [I(rng.randint(0, 4)), I(rng.randint(0, 5))]) for _ in range(rng.randint(1, 3))]
    elif kind == "subr":
        # the subroutine's own callsite is re-entered while its second argument is being evaluated
        defs = [("subr", "s", [(None, "a"), (None, "b")],
                 [pr(Sx("s"), L("a"), L("b")), ("if", [(Bn(">", L("a"), I(0)), [("call", "s", [Bn("-", L("a"), I(1)), ("ucall", "viasub", [Bn("-", L("a"), I(1)), L("b")])])])], None)]),
                ("func", "viasub", [(None, "a"), (None, "b")], None, [("call", "s", [L("a"), Bn("+", L("b"), I(100))]), ("return", Bn("+", Bn("*", L("a"), I(10)), L("b")))])]
        body = [("call", "s", [I(rng.randint(0, 3)), I(rng.randint(0, 9))])]
        return {"runs": [(P(defs + [("end", body)]), [])]}
    elif kind == "hof":
        defs = [_ack(typed)]
        arr = ("arr", [I(rng.randint(0, 3)) for _ in range(rng.randint(1, 4))])
        calls = [call("apply", arr, fl(["e"], ("ucall", "ack", [I(rng.randint(1, 2)), L("e")]))),
                 call("fold", arr, fl(["acc", "e"], Bn("+", L("acc"), ("ucall", "ack", [I(2), ("ucall", "ack", [I(1), L("e")])]))), I(0)),
                 call("sort", ("arr", [I(v) for v in rng.sample(range(4), 3)]), fl(["u", "w"], Bn("<=>", ("ucall", "ack", [I(2), L("w")]), ("ucall", "ack", [I(2), L("u")])))),
                 call("select", arr, fl(["e"], Bn(">", ("ucall", "ack", [I(1), ("ucall", "ack", [I(1), L("e")])]), I(3))))]
        calls = rng.sample(calls, rng.randint(1, 3))
    else:
        # a function literal bound to a local recursing through that local (literals see enclosing locals)
        lit = ("funclit", [(None, "a"), (None, "b")], None,
               [("if", [(Bn("<=", L("a"), I(0)), [("return", Bn("+", L("b"), I(k2)))])], None),
                ("return", ("lcall", "fl", [Bn("-", L("a"), I(1)), ("lcall", "fl", [Bn("-", L("a"), I(1)), Bn(op, L("b"), I(k1))])]))])
        body = [asg(L("fl"), lit)] + [pr(("lcall", "fl", [I(rng.randint(0, 3)), I(rng.randint(0, 5))])) for _ in range(rng.randint(1, 2))]
        return {"runs": [(P([("end", body)]), [])]}
    if recs is not None and rng.random() < 0.5:
        return {"runs": [(P(defs + main), recs)]}
    body = [pr(c) for c in calls]
    if rng.random() < 0.3:
        body = [asg(L("r%d" % i), c) for i, c in enumerate(calls)] + [pr(*[L("r%d" % i) for i in range(len(calls))])]
    prog = defs + [("end", body)] if rng.random() < 0.6 else [("end", body)] + defs
    return {"runs": [(P(prog), [])]}


def chain_private_functions(rng):
    """functions (named, literals, higher-order-function callbacks) and oosvars are private to each put of a then-chain,
    also when both puts use the same names."""
    k1, k2 = rng.sample([2, 3, 5, 7, 11], 2)
    recs = G.gen_records(rng, rng.randint(1, 5), hetero=False)
    fl = lambda k: ("funclit", [(None, "e")], None, [("return", Bn("+", L("e"), I(k)))])

    def one(k, out1, out2, out3):
        cmp_ = ("func", "cmpf", [(None, "u"), (None, "w")], None,
                [("return", Bn("<=>", L("u"), L("w")) if k == k1 else Bn("<=>", L("w"), L("u")))])
        return P([("func", "f", [(None, "a")], None, [("return", Bn("*", L("a"), I(k)))]), cmp_,
                  asg(F(out1), ix(call("apply", ("arr", [F("x")]), L("f")), I(1))),
                  asg(F(out2), ("ucall", "f", [F("i")])),
                  asg(L("g"), fl(k)), asg(F(out3), Bn(".", ("lcall", "g", [F("i")]), Bn(".", Sx(":"), call("joinv", call("apply", ("arr", [F("i"), F("y")]), fl(k)), Sx(","))))),
                  asg(F(out1 + "s"), call("joinv", call("sort", ("arr", [F("i"), Bn("+", F("i"), I(7)), Bn("+", F("i"), I(3))]), L("cmpf")), Sx(","))),
                  opa("+", O("acc"), F("i")), asg(F(out1 + "acc"), O("acc"))])
    p1 = one(k1, "y1", "y2", "y3")
    p2 = one(k2, "z1", "z2", "z3")
    return {"runs": [({"chain": [p1, p2]}, recs)]}


SHAPES = {f.__name__: f for f in [
    shadow_inner_var, undeclared_updates_enclosing, locals_not_visible_in_callee, recursion_frames, loop_variables_scoped,
    by_value_arguments, oosvars_persist_and_private, field_positions, typed_declarations, indexing_shapes, autocreate_shapes,
    string_slices, emit_family, emit_other, filter_shapes, hof_shapes, loop_copy_semantics, for_typed_bind_variables,
    for_parenthesized_single_key, unset_shapes, begin_end_order, positional_names, break_continue_nested, absent_rules,
    op_assignments, presets, dot_and_types, map_literals_and_copies, parameter_redeclaration,
    loop_snapshot_nested_local, loop_snapshot_nested_oosvar, loop_snapshot_accumulated, deep_nesting_many_locals,
    unset_local_scoping,
    positional_rename_then_access, self_referential_indexed_assignment, nested_recursion, chain_private_functions]}
