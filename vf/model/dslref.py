"""Reference interpreter for the covered sub-language of Miller's put/filter DSL (property C14).

Written from the language reference (docs/src/reference-dsl-*.md, reference-main-maps.md,
reference-main-arrays.md, reference-main-strings.md, reference-main-null-data.md,
reference-main-arithmetic.md, `mlr help function ...`), NOT from Miller's Go sources.  It operates
directly on the AST produced by vf/model/dslgen.py (it has no parser).

Three outcomes of running a program on an input stream:
  * normal   -> ordered list of output items: ("t", line) for printed text lines and ("j", canon)
                for every JSON value written to stdout (records in --ojsonl form, printed/dumped
                maps and arrays);
  * Fatal    -> the documentation says the run must fail (type-declaration violation,
                redeclaration in one scope, asserting_* failure, array index 0 on write); only "the
                run fails" is compared;
  * Decline  -> the program left the domain on which the documentation fixes the behaviour (error
                values, absent in places where the docs are silent, C07/C08 territory, documented
                "undefined" emit shapes...).  Declined programs are discarded at generation time.

AST (plain tuples, see dslgen.py for the printer):
 expressions
  ("int", n>=0) ("str", s) ("bool", b)
  ("field", name) ("fieldx", e) ("posname", e) ("posval", e) ("srec",)
  ("oos", name) ("oosall",) ("local", name) ("ctx", "NR"|"NF"|"FNR"|"FILENAME")
  ("bin", op, a, b) ("un", op, a) ("tern", c, a, b)
  ("index", base, [i1, ...]) ("slice", base, lo|None, hi|None)
  ("map", [(k, v), ...]) ("arr", [e, ...])
  ("bcall", name, [args]) ("ucall", name, [args]) ("lcall", localname, [args])
  ("funclit", [(type|None, name), ...], rettype|None, block)
 statements
  ("assign", lv, e) ("opassign", op, lv, e) ("decl", type, name, e) ("unset", [lv, ...])
  ("if", [(cond, block), ...], elseblock|None) ("cond", e, block)
  ("while", c, block) ("dowhile", block, c)
  ("for1", (type|None, v), e, block) ("for2", (t, k), (t, v), e, block)
  ("formulti", [k1, k2, ...], v, e, block) ("forc", [init stmts], cond|None, [step stmts], block)
  ("break",) ("continue",) ("return", e|None) ("call", name, [args]) ("bare", e) ("filter", e)
  ("print", [e, ...]) ("printn", [e, ...]) ("dump", e|None)
  ("emit1", e) ("emitf", [oosname, ...])
  ("emit", "emit"|"emitp", lashed(bool), [emittable, ...], [name exprs])
       emittable: ("oos", n) | ("local", n) | ("oosall",) | ("all",) | ("srec",) | ("map", ...) | ("bcall", ...) | ("ucall", ...)
 top level
  ("begin", block) ("end", block) ("func", name, params, rettype, block) ("subr", name, params, block)
  and any statement (main block)
 lvalues: ("field", n) ("fieldx", e) ("posname", e) ("posval", e) ("srec",) ("oos", n) ("oosall",)
          ("local", n) ("index", baselv, [i1, ...])
"""
import copy
import re

CUR_FEATS = set()     # risk features of the run in progress (set by Interp.run; used in violation signatures)
INT_BOUND = 10 ** 12
MAX_STEPS = 20000
MAX_DEPTH = 40


class Decline(Exception):
    pass


class Fatal(Exception):
    pass


class _Absent:
    __slots__ = ()

    def __repr__(self):
        return "ABSENT"

    def __deepcopy__(self, memo):
        return self

    def __copy__(self):
        return self

    def __reduce__(self):
        return (_get_absent, ())


ABSENT = _Absent()


def _get_absent():
    return ABSENT


class FuncVal:
    __slots__ = ("params", "rettype", "body", "name", "literal", "home")

    def __init__(self, params, rettype, body, name, literal, home):
        self.params, self.rettype, self.body, self.name, self.literal, self.home = params, rettype, body, name, literal, home

    def __deepcopy__(self, memo):
        return self


class _Break(Exception):
    pass


class _Continue(Exception):
    pass


class _Return(Exception):
    def __init__(self, value):
        self.value = value


# --------------------------------------------------------------------------------------------
# value helpers

def is_int(v):
    return type(v) is int


def is_float(v):
    return type(v) is float


def is_num(v):
    return type(v) is int or type(v) is float


def is_str(v):
    return type(v) is str


def is_bool(v):
    return type(v) is bool


def is_map(v):
    return type(v) is dict


def is_arr(v):
    return type(v) is list


def is_fun(v):
    return isinstance(v, FuncVal)


def typeof(v):
    if v is ABSENT:
        return "absent"
    if v is None:
        return "empty"   # JSON null: typeof is documented as "empty" on the questions page; we decline before using it
    if is_bool(v):
        return "bool"   # reference-dsl-control-structures.md line 263 (typeof of a boolean)
    if is_int(v):
        return "int"
    if is_float(v):
        return "float"
    if is_str(v):
        return "empty" if v == "" else "string"
    if is_map(v):
        return "map"
    if is_arr(v):
        return "array"
    if is_fun(v):
        return "funct"
    raise Decline("typeof unknown")


def check_int(v):
    if abs(v) > INT_BOUND:
        raise Decline("int magnitude beyond model bound (C07 territory)")
    return v


def check_float(v):
    # only quarters with small magnitude: their shortest decimal form is unambiguous
    if v != v or v in (float("inf"), float("-inf")):
        raise Decline("non-finite float")
    if v == 0 and str(v).startswith("-"):
        raise Decline("negative zero (float formatting is not C14's)")
    if abs(v) > 1e9 or (v * 4) != int(v * 4):
        raise Decline("float outside the exactly-representable quarter grid (float formatting is not C14's)")
    return v


def fmt_num(v):
    if is_int(v):
        return str(v)
    if v == int(v):
        return str(int(v))
    return repr(v)


def fmt_scalar(v):
    """Text of a scalar as print / dot / string-valued contexts render it."""
    if v is ABSENT:
        return ""
    if is_bool(v):
        return "true" if v else "false"
    if is_num(v):
        return fmt_num(v)
    if is_str(v):
        return v
    raise Decline("formatting of non-scalar / null / function as text")


def canon(v):
    """Canonical, order-preserving, comparable form of a value that is written as JSON."""
    if is_bool(v):
        return ("b", v)
    if is_num(v):
        return ("n", float(v)) if is_float(v) and v != int(v) else ("n", int(v))
    if is_str(v):
        return ("s", v)
    if v is None:
        return ("z",)
    if is_map(v):
        return ("M", tuple((k, canon(x)) for k, x in v.items()))
    if is_arr(v):
        return ("A", tuple(canon(x) for x in v))
    raise Decline("value not representable in JSON output (absent/function)")


def canon_json(o):
    """Same canonical form from parsed JSON text (objects parsed with object_pairs_hook=list of pairs wrapped in PairList)."""
    if isinstance(o, bool):
        return ("b", o)
    if isinstance(o, int):
        return ("n", o)
    if isinstance(o, float):
        return ("n", int(o)) if o == int(o) else ("n", o)
    if isinstance(o, str):
        return ("s", o)
    if o is None:
        return ("z",)
    if isinstance(o, PairList):
        return ("M", tuple((k, canon_json(x)) for k, x in o))
    if isinstance(o, list):
        return ("A", tuple(canon_json(x) for x in o))
    raise ValueError("unexpected JSON value")


class PairList(list):
    pass


MAX_NODES = 4000
MAX_STRLEN = 4000


def _count(v, budget):
    if is_map(v):
        budget -= len(v)
        if budget < 0:
            return budget
        for x in v.values():
            if is_map(x) or is_arr(x):
                budget = _count(x, budget)
                if budget < 0:
                    return budget
    elif is_arr(v):
        budget -= len(v)
        if budget < 0:
            return budget
        for x in v:
            if is_map(x) or is_arr(x):
                budget = _count(x, budget)
                if budget < 0:
                    return budget
    return budget


def dcopy(v):
    if is_map(v) or is_arr(v):
        if _count(v, MAX_NODES) < 0:
            raise Decline("collection larger than the model's size bound")
        return copy.deepcopy(v)
    if is_str(v) and len(v) > MAX_STRLEN:
        raise Decline("string longer than the model's size bound")
    return v


def mapkey(k):
    """Map keys are strings; ints are stringified (reference-main-maps.md)."""
    if is_int(k):
        return str(k)
    if is_str(k):
        if k == "":
            raise Decline("empty map key")
        return k
    raise Decline("map key that is neither int nor string")


TYPE_NAMES = ("var", "any", "str", "num", "int", "float", "bool", "map", "arr", "funct")


def type_ok(t, v):
    if v is ABSENT or v is None:
        raise Decline("absent/null against a type declaration (docs only say what happens for return values)")
    if t in ("var", "any", None):
        return True
    if t == "str":
        return is_str(v)
    if t == "num":
        return is_num(v)
    if t == "int":
        return is_int(v)
    if t == "float":
        return is_float(v)
    if t == "bool":
        return is_bool(v)
    if t == "map":
        return is_map(v)
    if t == "arr":
        return is_arr(v)
    if t == "funct":
        return is_fun(v)
    raise Decline("unknown type name " + str(t))


# --------------------------------------------------------------------------------------------
# operators

def _arith_absent_empty(op, a, b):
    """The documented (+)-table for absent and empty operands (reference-main-null-data.md); returns
    (handled, value).  Only + - * follow it in this model; other operators decline on absent/empty."""
    if a is ABSENT and b is ABSENT:
        return True, ABSENT
    if a is ABSENT:
        if b == "" and is_str(b):
            return True, ABSENT
        return False, None
    if b is ABSENT:
        if a == "" and is_str(a):
            return True, ABSENT
        return False, None
    return False, None


def binop(op, a, b):
    # ---- arithmetic
    if op in ("+", "-", "*"):
        h, v = _arith_absent_empty(op, a, b)
        if h:
            return v
        if a is ABSENT:
            if is_num(b):
                if op == "-":
                    # absent acts like zero for subtraction: 0 - b? the docs say "return the other operand"
                    # for one absent operand and "act like zero for addition/subtraction": these differ for
                    # absent - b, so decline there.
                    raise Decline("absent - x: docs give two readings")
                return b
            raise Decline("absent with non-number in arithmetic")
        if b is ABSENT:
            if is_num(a):
                return a
            raise Decline("absent with non-number in arithmetic")
        ea, eb = (is_str(a) and a == ""), (is_str(b) and b == "")
        if ea and eb:
            return ""
        if ea:
            if is_num(b):
                if op == "-":
                    return check_num(-b)
                return b
            raise Decline("empty with non-number")
        if eb:
            if is_num(a):
                return a
            raise Decline("empty with non-number")
        if is_int(a) and is_int(b):
            return check_int(a + b if op == "+" else a - b if op == "-" else a * b)
        if is_num(a) and is_num(b):
            return check_float(float(a + b if op == "+" else a - b if op == "-" else a * b))
        raise Decline("arithmetic on non-numbers yields an error value")
    if op in ("/", "//", "%", "**"):
        if not (is_num(a) and is_num(b)):
            raise Decline("non-numeric or absent operand for " + op)
        if op == "/":
            if b == 0:
                raise Decline("division by zero (C07)")
            if is_int(a) and is_int(b):
                if a % b == 0:
                    return check_int(a // b)
                return check_float(a / b)
            return check_float(float(a) / float(b))
        if not (is_int(a) and is_int(b)):
            raise Decline("float operand for " + op)
        if op == "//":
            if b == 0:
                raise Decline("division by zero (C07)")
            return check_int(a // b)
        if op == "%":
            if b <= 0:
                raise Decline("non-positive modulus (C07)")
            if a < 0 and a % b == 0:
                CUR_FEATS.add("mod-exact-multiple-negative-dividend")
            return a % b
        if op == "**":
            if b < 0 or b > 40:
                raise Decline("negative or large exponent")
            return check_int(a ** b)
    # ---- dot
    if op == ".":
        if a is ABSENT and b is ABSENT:
            return ABSENT
        if a is ABSENT or b is ABSENT:
            o = b if a is ABSENT else a
            if is_str(o):
                return o
            raise Decline("absent . non-string: result type not fixed by the docs")
        if (is_str(a) or is_num(a)) and (is_str(b) or is_num(b)):
            r = fmt_scalar(a) + fmt_scalar(b)
            if len(r) > MAX_STRLEN:
                raise Decline("string longer than the model's size bound")
            return r
        raise Decline("dot on boolean/collection")
    # ---- bitwise
    if op in ("&", "|", "^", "<<", ">>", ">>>"):
        if not (is_int(a) and is_int(b)):
            raise Decline("bit operator on non-int / absent")
        if op == "&":
            return a & b
        if op == "|":
            return a | b
        if op == "^":
            return a ^ b
        if b < 0 or b > 20:
            raise Decline("shift count outside small range")
        if op == "<<":
            return check_int(a << b)
        if op == ">>":
            return a >> b
        if op == ">>>":
            r = (a & 0xFFFFFFFFFFFFFFFF) >> b
            if r >= 1 << 63:
                r -= 1 << 64
            return check_int(r)
    # ---- comparison
    if op in ("<", "<=", ">", ">=", "==", "!=", "<=>"):
        if a is ABSENT or b is ABSENT:
            raise Decline("comparison with absent (C08)")
        if is_num(a) and is_num(b):
            x, y = a, b
        elif is_str(a) and is_str(b):
            if a == "" or b == "":
                raise Decline("comparison with empty (C08)")
            x, y = a, b
        elif (is_num(a) and is_str(b)) or (is_str(a) and is_num(b)):
            # "Mixing number and string results in string compare"
            if a == "" or b == "":
                raise Decline("comparison with empty (C08)")
            if op == "<=>":
                raise Decline("<=> on mixed number/string: sorting collation is C09's")
            x, y = fmt_scalar(a), fmt_scalar(b)
        elif is_bool(a) and is_bool(b) and op in ("==", "!="):
            x, y = a, b
        else:
            raise Decline("comparison on booleans/collections")
        if is_str(x) and not all(ord(c) < 128 for c in x + y):
            raise Decline("non-ASCII string compare")
        if op == "<":
            return x < y
        if op == "<=":
            return x <= y
        if op == ">":
            return x > y
        if op == ">=":
            return x >= y
        if op == "==":
            return x == y
        if op == "!=":
            return x != y
        return -1 if x < y else (1 if x > y else 0)
    if op in ("=~", "!=~"):
        if not (is_str(a) and is_str(b)) or a == "":
            raise Decline("regex match on non-strings")
        if not re.fullmatch(r"[A-Za-z0-9_ \^\$\.\*\+\[\]\-]*", b) or b == "":
            raise Decline("regex outside the literal-safe subset")
        try:
            m = re.search(b, a) is not None
        except re.error:
            raise Decline("regex not valid in Python")
        return m if op == "=~" else (not m)
    if op == "^^":
        if is_bool(a) and is_bool(b):
            return a != b
        raise Decline("^^ on non-booleans/absent (C08)")
    raise Decline("unknown binary operator " + op)


def check_num(v):
    return check_int(v) if is_int(v) else check_float(v)


def unop(op, a):
    if op == "-":
        if a is ABSENT:
            return ABSENT
        if is_num(a):
            return check_num(-a)
        raise Decline("unary minus on non-number")
    if op == "+":
        if a is ABSENT:
            return ABSENT
        if is_num(a):
            return a
        raise Decline("unary plus on non-number")
    if op == "~":
        if a is ABSENT:
            return ABSENT
        if is_int(a):
            return ~a
        raise Decline("~ on non-int")
    if op == "!":
        if is_bool(a):
            return not a
        raise Decline("! on non-boolean/absent (C08)")
    raise Decline("unknown unary operator")


def slice_bounds(n, lo, hi):
    """Inclusive 1-up slice with negative aliases, out-of-bounds trimmed (arrays/strings pages)."""
    if lo is None:
        lo = 1
    if hi is None:
        hi = n
    if not (is_int(lo) and is_int(hi)):
        raise Decline("non-int slice index")
    if lo == 0 or hi == 0:
        raise Decline("0 in a slice: never a valid index, behaviour not documented for slices")
    if lo < 0:
        lo = lo + n + 1
    if hi < 0:
        hi = hi + n + 1
    lo = max(lo, 1)
    hi = min(hi, n)
    if lo > hi:
        return None
    return lo, hi


# --------------------------------------------------------------------------------------------

def static_check(prog, verb):
    """Conditions that Miller rejects before reading any record (documented as syntax / parse-time errors) or that
    make a program meaningless; a program violating them is outside the generated language."""
    funcs, subrs = {}, {}
    for it in prog:
        if it[0] == "func":
            if it[1] in funcs:
                raise Decline("function defined twice")
            funcs[it[1]] = len(it[2])
        elif it[0] == "subr":
            if it[1] in subrs:
                raise Decline("subroutine defined twice")
            subrs[it[1]] = len(it[2])
    has_bare = [False]

    def walk(x, ctx):
        # ctx: dict(where=main|begin|end|func|subr, loop=bool, lit=bool)
        if isinstance(x, list):
            for y in x:
                walk(y, ctx)
            return
        if not isinstance(x, tuple) or not x or not isinstance(x[0], str):
            if isinstance(x, tuple):
                for y in x:
                    walk(y, ctx)
            return
        k = x[0]
        if k in ("begin", "end", "func", "subr"):
            if ctx["where"] != "top":
                raise Decline("nested begin/end/func/subr")
            if k in ("func", "subr"):
                names = [n for _, n in x[2]]
                if len(set(names)) != len(names):
                    raise Decline("duplicate parameter names")
            walk(x[-1], dict(where=k, loop=False, lit=False))
            return
        if ctx["where"] == "top":
            ctx = dict(where="main", loop=False, lit=False)
        if k in ("field", "fieldx", "posname", "posval", "srec") or (k == "ctx" and x[1] in ("NF", "FILENAME", "FNR")):
            if ctx["where"] in ("begin", "end"):
                raise Decline("begin/end blocks cannot refer to records")
            if ctx["where"] in ("func", "subr"):
                raise Decline("record references inside functions are kept out of the generated language")
        if k == "ctx" and x[1] == "NR" and ctx["where"] in ("begin", "func", "subr"):
            raise Decline("NR outside main/end")
        if k == "ucall":
            if funcs.get(x[1]) != len(x[2]):
                raise Decline("call of an undefined function / wrong arity")
        if k == "call":
            if subrs.get(x[1]) != len(x[2]):
                raise Decline("call of an undefined subroutine / wrong arity")
        if k == "funclit":
            if ctx["where"] == "subr":
                raise Decline("function literal inside a subroutine (its return is rejected statically)")
            names = [n for _, n in x[1]]
            if len(set(names)) != len(names):
                raise Decline("duplicate parameter names")
            walk(x[3], dict(where="func", loop=False, lit=True))
            return
        if k == "return":
            if ctx["where"] == "func":
                if x[1] is None:
                    raise Decline("valueless return in a function")
            elif ctx["where"] == "subr":
                if x[1] is not None:
                    raise Decline("return with a value in a subroutine")
            else:
                raise Decline("return outside func/subr")
        if k in ("break", "continue") and not ctx["loop"]:
            raise Decline("break/continue outside a loop")
        if k == "filter" and (verb == "filter" or ctx["where"] != "main"):
            raise Decline("filter keyword in mlr filter / outside the main block")
        if k == "bare" and ctx["where"] == "main":
            has_bare[0] = True
        if k in ("while", "dowhile", "for1", "for2", "formulti", "forc"):
            inner = dict(ctx, loop=True)
            if k == "while":
                walk(x[1], ctx)
                walk(x[2], inner)
            elif k == "dowhile":
                walk(x[1], inner)
                walk(x[2], ctx)
            elif k == "for1":
                walk(x[2], ctx)
                walk(x[3], inner)
            elif k in ("for2", "formulti"):
                walk(x[3], ctx)
                walk(x[4], inner)
            else:
                walk(x[1], ctx)
                if x[2] is not None:
                    walk(x[2], ctx)
                walk(x[3], ctx)
                walk(x[4], inner)
            return
        for y in x[1:]:
            walk(y, ctx)

    for it in prog:
        walk(it, dict(where="top", loop=False, lit=False))
    if verb == "filter" and not has_bare[0]:
        raise Decline("mlr filter without a bare-boolean statement")
    if not prog:
        raise Decline("empty program")


class Frame(dict):
    """name -> [type, value]"""
    __slots__ = ("barrier", "params")

    def __init__(self, barrier=False):
        dict.__init__(self)
        self.barrier = barrier
        self.params = ()


class Interp:
    def __init__(self, prog, verb="put", quiet=False, invert=False, presets=None, filename="in.json"):
        static_check(prog, verb)
        self.prog = prog
        self.verb = verb
        self.quiet = quiet
        self.invert = invert
        self.filename = filename
        self.funcs = {}
        self.subrs = {}
        self.begins = []
        self.ends = []
        self.main = []
        for it in prog:
            k = it[0]
            if k == "func":
                self.funcs[it[1]] = FuncVal(it[2], it[3], it[4], it[1], False, None)
            elif k == "subr":
                self.subrs[it[1]] = it
            elif k == "begin":
                self.begins.append(it[1])
            elif k == "end":
                self.ends.append(it[1])
            else:
                self.main.append(it)
        self.oos = {}
        for k, v in (presets or []):
            self.oos[k] = v
        self.rec = None
        self.NR = None
        self.out = []
        self.linebuf = None
        self.framesets = []
        self.fsid = 0
        self.steps = 0
        self.depth = 0
        self.filter_result = None
        self.feats = set()
        self.stats = {}      # executed-construct counters (for non-triviality and coverage numbers)
        self.lvkinds = set()
        self.callkinds = []

    # ---- bookkeeping
    def bump(self, k):
        self.stats[k] = self.stats.get(k, 0) + 1

    def tick(self):
        self.steps += 1
        if self.steps > MAX_STEPS:
            raise Decline("step budget exceeded (possible non-termination)")

    # ---- output
    def out_text(self, s, newline):
        if "\n" in s or "\r" in s:
            raise Decline("newline inside printed text")
        cur = self.linebuf or ""
        cur += s
        if newline:
            if cur[:1] in "{[" and cur[:1] != "":
                raise Decline("text line that could be read as JSON")
            self.out.append(("t", cur))
            self.linebuf = None
        else:
            self.linebuf = cur

    def out_json(self, v):
        if self.linebuf is not None:
            raise Decline("JSON output in the middle of a printn line")
        self.out.append(("j", canon(v)))

    def out_record(self, rec):
        if len(rec) == 0:
            raise Decline("empty record in the output stream")
        self.out_json(rec)

    # ---- frames
    def push_frameset(self):
        self.fsid += 1
        self.framesets.append([self.fsid, [Frame()]])

    def pop_frameset(self):
        self.framesets.pop()

    @property
    def frames(self):
        return self.framesets[-1][1]

    def push(self, barrier=False):
        self.frames.append(Frame(barrier))

    def pop(self):
        self.frames.pop()

    def lookup(self, name):
        for fr in reversed(self.frames):
            if name in fr:
                return fr[name]
        return None

    def lookup_for_write(self, name):
        crossed = False
        for fr in reversed(self.frames):
            if name in fr:
                if crossed:
                    raise Decline("function literal assigns to a variable of its enclosing scope")
                return fr[name]
            if fr.barrier:
                crossed = True
        return None

    def define(self, typ, name, value):
        fr = self.frames[-1]
        if name in fr:
            if name in fr.params:
                # reference-dsl-variables.md, type-decl-example.mlr: "subr s(a, str b, int c) { var b = 100; # error"
                self.feats.add("redeclare-parameter-in-body")
            raise Fatal("variable %s has already been defined in the same scope" % name)
        if not type_ok(typ, value):
            raise Fatal("type declaration %s violated for %s" % (typ, name))
        fr[name] = [typ, dcopy(value)]

    def bind(self, typ, name, value):
        """Bind a loop variable / parameter in the innermost frame (implicitly 'var' unless typed)."""
        fr = self.frames[-1]
        if typ not in (None, "var", "any"):
            if not type_ok(typ, value):
                raise Fatal("type declaration %s violated for %s" % (typ, name))
        fr[name] = [typ, dcopy(value)]

    def assign_local(self, name, value):
        slot = self.lookup_for_write(name)
        if slot is None:
            self.frames[-1][name] = [None, dcopy(value)]
            return
        if slot[0] not in (None, "var", "any"):
            if not type_ok(slot[0], value):
                raise Fatal("type declaration %s violated for %s" % (slot[0], name))
        slot[1] = dcopy(value)

    # ---- expression evaluation
    def ev(self, e):
        self.tick()
        k = e[0]
        m = getattr(self, "ev_" + k, None)
        if m is None:
            raise Decline("unknown expression kind " + k)
        return m(e)

    def ev_int(self, e):
        return e[1]

    def ev_str(self, e):
        return e[1]

    def ev_bool(self, e):
        return e[1]

    def need_rec(self):
        if self.rec is None:
            raise Decline("record reference outside the main block")
        return self.rec

    def ev_field(self, e):
        return self.need_rec().get(e[1], ABSENT)

    def ev_fieldx(self, e):
        k = self.ev(e[1])
        if k is ABSENT:
            return ABSENT
        return self.need_rec().get(mapkey(k), ABSENT)

    def _pos(self, e):
        n = self.ev(e[1])
        if not is_int(n):
            raise Decline("non-int positional index")
        rec = self.need_rec()
        if n < 1:
            self.feats.add("positional-index-below-1")
        if n < 1 or n > len(rec):
            return None
        return n

    def ev_posname(self, e):
        n = self._pos(e)
        if n is None:
            return ABSENT
        return list(self.rec.keys())[n - 1]

    def ev_posval(self, e):
        n = self._pos(e)
        if n is None:
            return ABSENT
        return list(self.rec.values())[n - 1]

    def ev_srec(self, e):
        return self.need_rec()

    def ev_oos(self, e):
        return self.oos.get(e[1], ABSENT)

    def ev_oosall(self, e):
        return self.oos

    def ev_local(self, e):
        slot = self.lookup(e[1])
        if slot is None:
            if e[1] in self.funcs:
                return self.funcs[e[1]]
            return ABSENT
        return slot[1]

    def ev_ctx(self, e):
        n = e[1]
        if n == "NR" or n == "FNR":
            if self.NR is None:
                raise Decline("NR in a begin block")
            return self.NR
        if n == "NF":
            return len(self.need_rec())
        if n == "FILENAME":
            self.need_rec()
            return self.filename
        raise Decline("context variable " + n)

    def ev_bin(self, e):
        op = e[1]
        if op == "&&" or op == "||":
            a = self.ev(e[2])
            # the documented table (reference-main-null-data.md) for true/false/absent; others decline
            if not (is_bool(a) or a is ABSENT):
                raise Decline("non-boolean operand of " + op)
            if op == "&&" and a is False:
                return False
            if op == "||" and a is True:
                return True
            b = self.ev(e[3])
            if not (is_bool(b) or b is ABSENT):
                raise Decline("non-boolean operand of " + op)
            # a is the neutral element (true for &&, false for ||) or absent: the table gives b, and absent if b is absent
            return b
        if op == "??" or op == "???":
            a = self.ev(e[2])
            if a is ABSENT:
                return self.ev(e[3])
            if op == "???" and is_str(a) and a == "":
                return self.ev(e[3])
            if a is None:
                raise Decline("?? on JSON null")
            # Whether the right-hand side is evaluated when the left is present is not documented; the
            # generator only puts side-effect-free expressions there.
            return a
        a = self.ev(e[2])
        b = self.ev(e[3])
        if a is None or b is None:
            raise Decline("operator on JSON null")
        if op == "=~" or op == "!=~":
            self.feats.add("regex")
        return binop(op, a, b)

    def ev_un(self, e):
        a = self.ev(e[2])
        if a is None:
            raise Decline("operator on JSON null")
        return unop(e[1], a)

    def ev_tern(self, e):
        c = self.ev(e[1])
        if not is_bool(c):
            raise Decline("non-boolean ternary condition")
        return self.ev(e[2]) if c else self.ev(e[3])

    def index1(self, base, i):
        if base is ABSENT:
            return ABSENT
        if i is ABSENT:
            raise Decline("absent index on read")
        if is_map(base):
            return base.get(mapkey(i), ABSENT)
        if is_arr(base):
            if not is_int(i):
                raise Decline("non-int array index")
            n = len(base)
            if i == 0:
                raise Decline("array index 0 on read")
            if 1 <= i <= n:
                return base[i - 1]
            if -n <= i <= -1:
                return base[i + n]
            return ABSENT
        if is_str(base):
            if not is_int(i):
                raise Decline("non-int string index")
            n = len(base)
            if not base.isascii():
                raise Decline("non-ASCII string index")
            if 1 <= i <= n:
                return base[i - 1]
            if -n <= i <= -1:
                return base[i + n]
            raise Decline("out-of-bounds string index is an error value")
        raise Decline("indexing a scalar")

    def ev_index(self, e):
        v = self.ev(e[1])
        for ie in e[2]:
            i = self.ev(ie)
            v = self.index1(v, i)
            if v is None:
                raise Decline("JSON null read out of an array gap")
        return v

    def ev_slice(self, e):
        v = self.ev(e[1])
        lo = self.ev(e[2]) if e[2] is not None else None
        hi = self.ev(e[3]) if e[3] is not None else None
        if is_arr(v):
            b = slice_bounds(len(v), lo, hi)
            if b is None:
                return []
            return v[b[0] - 1:b[1]]
        if is_str(v):
            if not v.isascii() or v == "":
                raise Decline("slice of empty/non-ASCII string")
            b = slice_bounds(len(v), lo, hi)
            if b is None:
                raise Decline("empty string slice: empty-vs-string typing belongs to C08")
            return v[b[0] - 1:b[1]]
        raise Decline("slice of non-array/string")

    def ev_map(self, e):
        m = {}
        for ke, ve in e[1]:
            k = self.ev(ke)
            v = self.ev(ve)
            if k is ABSENT or v is ABSENT:
                continue   # "absent-valued keys or values result in a skipped assignment"
            if v is None:
                raise Decline("null")
            m[mapkey(k)] = dcopy(v)
        return m

    def ev_arr(self, e):
        a = []
        for ve in e[1]:
            v = self.ev(ve)
            if v is ABSENT:
                raise Decline("absent inside an array literal")
            a.append(dcopy(v))
        return a

    def ev_funclit(self, e):
        self.bump("funclit")
        return FuncVal(e[1], e[2], e[3], "function-literal", True, self.framesets[-1][0])

    # ---- calls
    def call_func(self, fv, args, is_subr=False):
        if len(args) != len(fv.params):
            raise Decline("arity mismatch")
        self.depth += 1
        if self.depth > MAX_DEPTH:
            raise Decline("recursion depth")
        self.callkinds.append("subr" if is_subr else "func")
        try:
            return self._call_func(fv, args)
        except Fatal as e:
            if not is_subr and not getattr(e, "at_boundary", False):
                self.feats.add("fatal-inside-func-body")
            raise
        finally:
            self.callkinds.pop()
            self.depth -= 1

    def _call_func(self, fv, args):
        try:
            if fv.literal:
                if fv.home != self.framesets[-1][0]:
                    raise Decline("function literal called outside the function activation that created it")
                self.push(barrier=True)
                pushed_fs = False
            else:
                self.push_frameset()
                pushed_fs = True
            try:
                try:
                    for (pt, pn), a in zip(fv.params, args):
                        if a is ABSENT:
                            raise Decline("absent argument")
                        if pn in self.frames[-1]:
                            raise Decline("duplicate parameter name")
                        self.bind(pt, pn, a)
                except Fatal as e:
                    e.at_boundary = True
                    raise
                self.frames[-1].params = tuple(pn for _, pn in fv.params)
                ret = ABSENT
                try:
                    self.exec_stmts(fv.body)
                except _Return as r:
                    ret = r.value
                except (_Break, _Continue):
                    raise Decline("break/continue escaping a function")
                if fv.rettype is not None:
                    bad = None
                    if ret is ABSENT:
                        bad = Fatal("typed function returned absent")
                    elif not type_ok(fv.rettype, ret):
                        bad = Fatal("return type %s violated" % fv.rettype)
                    if bad is not None:
                        bad.at_boundary = True
                        raise bad
                return dcopy(ret)
            finally:
                if pushed_fs:
                    self.pop_frameset()
                else:
                    self.pop()
        finally:
            pass

    def ev_ucall(self, e):
        self.bump("ucall")
        fv = self.funcs.get(e[1])
        if fv is None:
            raise Decline("unknown function")
        args = [self.ev(a) for a in e[2]]
        return self.call_func(fv, args)

    def ev_lcall(self, e):
        self.bump("lcall")
        slot = self.lookup(e[1])
        if slot is None or not is_fun(slot[1]):
            raise Decline("call of a non-function local")
        args = [self.ev(a) for a in e[2]]
        return self.call_func(slot[1], args)

    def ev_bcall(self, e):
        name = e[1]
        if name in HOFS:
            self.bump("hof")
            return HOFS[name](self, [self.ev(a) for a in e[2]])
        f = BUILTINS.get(name)
        if f is None:
            raise Decline("builtin not modelled: " + name)
        args = [self.ev(a) for a in e[2]]
        for a in args:
            if a is None:
                raise Decline("null argument")
        self.bump("bcall:" + name)
        return f(*args)

    # ---- lvalues
    def base_get(self, lv):
        k = lv[0]
        if k == "local":
            slot = self.lookup(lv[1])
            return ABSENT if slot is None else slot[1]
        if k == "oos":
            return self.oos.get(lv[1], ABSENT)
        if k == "field":
            return self.need_rec().get(lv[1], ABSENT)
        raise Decline("indexed assignment on this kind of base")

    def base_set(self, lv, value):
        k = lv[0]
        if k == "local":
            slot = self.lookup_for_write(lv[1])
            if slot is None:
                self.frames[-1][lv[1]] = [None, value]
            else:
                if slot[0] not in (None, "var", "any") and not type_ok(slot[0], value):
                    raise Fatal("type declaration violated")
                slot[1] = value
        elif k == "oos":
            self.oos[lv[1]] = value
        elif k == "field":
            self.need_rec()[lv[1]] = value
        else:
            raise Decline("indexed assignment on this kind of base")

    def put_indexed(self, cont, idxs, value):
        """Assign value at cont[i1][i2]...; cont is a map/array that exists.  Auto-create of missing
        intermediate levels yields maps; arrays auto-extend by one / null-fill at the last level."""
        cur = cont
        for n, i in enumerate(idxs):
            last = (n == len(idxs) - 1)
            if i is ABSENT:
                return False
            if is_map(cur):
                key = mapkey(i)
                if last:
                    cur[key] = dcopy(value)
                    return True
                nxt = cur.get(key, ABSENT)
                if nxt is ABSENT:
                    nxt = {}
                    cur[key] = nxt
                elif not (is_map(nxt) or is_arr(nxt)):
                    raise Decline("indexing through a scalar on assignment")
                cur = nxt
            elif is_arr(cur):
                if not is_int(i):
                    raise Decline("non-int array index on assignment")
                ln = len(cur)
                if i == 0:
                    raise Fatal("zero indices are not supported")
                if last:
                    if 1 <= i <= ln:
                        cur[i - 1] = dcopy(value)
                    elif -ln <= i <= -1:
                        cur[i + ln] = dcopy(value)
                    elif i == ln + 1:
                        cur.append(dcopy(value))
                        self.bump("array-extend")
                    elif i > ln + 1:
                        if i > ln + 8:
                            raise Decline("large null gap")
                        cur.extend([None] * (i - ln - 1))
                        cur.append(dcopy(value))
                        self.bump("array-nullgap")
                    else:
                        raise Decline("negative index beyond the start on assignment")
                    return True
                if 1 <= i <= ln:
                    nxt = cur[i - 1]
                elif -ln <= i <= -1:
                    nxt = cur[i + ln]
                else:
                    raise Decline("auto-extend through an intermediate array level")
                if not (is_map(nxt) or is_arr(nxt)):
                    raise Decline("indexing through a scalar on assignment")
                if is_map(nxt) and is_int(idxs[n + 1]):
                    # a map is indexed by ints as by strings ("3" and 3 are the same key, maps page), wherever it is held
                    self.feats.add("int-index-into-map-held-in-array")
                cur = nxt
            else:
                raise Decline("indexing through a scalar on assignment")
        return True

    def assign(self, lv, value):
        """Assign an already-evaluated value. Absent is never stored."""
        k = lv[0]
        if value is ABSENT:
            # indices / positional expressions are still evaluated by Miller or not: side-effect free in this grammar
            return
        if value is None:
            raise Decline("assigning JSON null")
        if is_fun(value) and k != "local":
            raise Decline("function value stored outside a local")
        self.lvkinds.add(k if k != "index" else "index:" + lv[1][0])
        if k == "local":
            self.assign_local(lv[1], value)
        elif k == "oos":
            self.oos[lv[1]] = dcopy(value)
        elif k == "field":
            self.need_rec()[lv[1]] = dcopy(value)
        elif k == "fieldx":
            name = self.ev(lv[1])
            if name is ABSENT:
                # the maps page says absent keys skip the assignment; for the computed-field-name form the reference
                # is silent (and the binary treats it as an error): outside the domain
                raise Decline("absent computed field name on assignment")
            self.need_rec()[mapkey(name)] = dcopy(value)
        elif k == "posname":
            n = self._pos(lv)
            if n is None:
                return
            if not is_str(value) or value == "":
                raise Decline("positional rename to a non-string")
            self.feats.add("positional-rename")
            keys = list(self.rec.keys())
            old = keys[n - 1]
            if value != old and value in self.rec:
                raise Decline("positional rename onto an existing field name")
            items = [(value if kk == old else kk, vv) for kk, vv in self.rec.items()]
            self.rec.clear()
            self.rec.update(items)
        elif k == "posval":
            n = self._pos(lv)
            if n is None:
                return
            key = list(self.rec.keys())[n - 1]
            self.rec[key] = dcopy(value)
        elif k == "srec":
            if not is_map(value):
                raise Decline("non-map assigned to $*")
            self.need_rec()
            new = dcopy(value)
            self.rec.clear()
            self.rec.update(new)
        elif k == "oosall":
            if not is_map(value):
                raise Decline("non-map assigned to @*")
            new = dcopy(value)
            self.oos.clear()
            self.oos.update(new)
        elif k == "index":
            base = lv[1]
            idxs = [self.ev(i) for i in lv[2]]
            if any(i is ABSENT for i in idxs):
                return     # "absent-valued keys or values result in a skipped assignment": nothing is created
            cur = self.base_get(base)
            if cur is ABSENT:
                if base[0] == "local" and self.lookup(base[1]) is not None and is_int(idxs[0]):
                    # declared but unset: still "as-yet-unassigned", so auto-create gives a map (arrays page)
                    self.feats.add("int-indexed-assign-on-unset-local")
                cur = {}
                self.put_indexed(cur, idxs, value)
                self.bump("autocreate")
                self.base_set(base, cur)
            elif is_map(cur) or is_arr(cur):
                self.put_indexed(cur, idxs, value)
            else:
                raise Decline("indexed assignment on a scalar")
        else:
            raise Decline("unknown lvalue kind")

    def unset(self, lv):
        k = lv[0]
        self.bump("unset:" + k)
        if k == "local":
            slot = self.lookup_for_write(lv[1])
            if slot is not None:
                slot[1] = ABSENT
        elif k == "oos":
            self.oos.pop(lv[1], None)
        elif k == "field":
            self.need_rec().pop(lv[1], None)
        elif k == "fieldx":
            name = self.ev(lv[1])
            if name is ABSENT:
                raise Decline("absent computed field name in unset")
            self.need_rec().pop(mapkey(name), None)
        elif k == "srec":
            self.need_rec().clear()
        elif k in ("oosall", "all"):
            self.oos.clear()
        elif k == "index":
            idxs = [self.ev(i) for i in lv[2]]
            cur = self.base_get(lv[1])
            for n, i in enumerate(idxs):
                last = (n == len(idxs) - 1)
                if cur is ABSENT or i is ABSENT:
                    return
                if is_map(cur):
                    key = mapkey(i)
                    if last:
                        cur.pop(key, None)
                        return
                    cur = cur.get(key, ABSENT)
                elif is_arr(cur):
                    if not is_int(i) or i == 0:
                        raise Decline("bad array index in unset")
                    ln = len(cur)
                    if 1 <= i <= ln:
                        z = i - 1
                    elif -ln <= i <= -1:
                        z = i + ln
                    else:
                        raise Decline("out-of-bounds unset on array")
                    if last:
                        del cur[z]
                        return
                    cur = cur[z]
                else:
                    raise Decline("unset through a scalar")
        else:
            raise Decline("unset of this lvalue kind")

    # ---- statements
    def exec_block(self, stmts):
        self.push()
        try:
            self.exec_stmts(stmts)
        finally:
            self.pop()

    def exec_stmts(self, stmts):
        for s in stmts:
            self.tick()
            m = getattr(self, "st_" + s[0], None)
            if m is None:
                raise Decline("unknown statement kind " + s[0])
            m(s)

    def st_assign(self, s):
        v = self.ev(s[2])
        self.bump("assign")
        if s[1][0] == "index" and len(s[1][2]) >= 2 and (is_map(v) or is_arr(v)) and _mentions(s[2], s[1][1]):
            self.feats.add("indexed-assign-rhs-mentions-own-base")
        self.assign(s[1], v)

    def lv_read(self, lv):
        k = lv[0]
        if k == "index":
            return self.ev(("index", lv[1], lv[2]))
        return self.ev(lv)

    def st_opassign(self, s):
        op, lv, e = s[1], s[2], s[3]
        cur = self.lv_read(lv)
        if cur is None:
            raise Decline("null")
        if op in ("&&", "||", "??", "???"):
            # evaluated as  lv = lv op rhs  with the operator's own rules
            v = self.ev(("bin", op, ("_val", cur), e))
        else:
            r = self.ev(e)
            if r is None:
                raise Decline("null")
            v = binop(op, cur, r)
        self.bump("opassign")
        self.assign(lv, v)

    def ev__val(self, e):
        return e[1]

    def st_decl(self, s):
        typ, name, e = s[1], s[2], s[3]
        v = self.ev(e)
        if v is ABSENT:
            raise Decline("declaration with an absent right-hand side")
        if v is None:
            raise Decline("null")
        self.bump("decl:" + typ)
        self.lvkinds.add("local")
        self.define(typ, name, v)

    def st_unset(self, s):
        for lv in s[1]:
            self.unset(lv)

    def cond_value(self, e):
        c = self.ev(e)
        if not is_bool(c):
            raise Decline("non-boolean / absent condition")
        return c

    def st_if(self, s):
        self.bump("if")
        for cond, block in s[1]:
            if self.cond_value(cond):
                self.exec_block(block)
                return
        if s[2] is not None:
            self.exec_block(s[2])

    def st_cond(self, s):
        self.bump("pattern-action")
        if self.cond_value(s[1]):
            self.exec_block(s[2])

    def st_while(self, s):
        self.bump("while")
        while self.cond_value(s[1]):
            self.tick()
            try:
                self.exec_block(s[2])
            except _Break:
                self.bump("break")
                break
            except _Continue:
                self.bump("continue")
                continue

    def st_dowhile(self, s):
        self.bump("dowhile")
        while True:
            self.tick()
            try:
                self.exec_block(s[1])
            except _Break:
                self.bump("break")
                break
            except _Continue:
                self.bump("continue")
            if not self.cond_value(s[2]):
                break

    def _loop_source(self, e):
        """Evaluate the looped-over collection.  The reference says loop variables are bound from a copy made
        before the loop began; we iterate over a snapshot and note whether the live collection changed."""
        v = self.ev(e)
        pure = e[0] in ("local", "oos", "oosall", "srec", "field") or (e[0] == "index" and e[1][0] in ("local", "oos", "field"))
        return v, pure

    def _note_mutation(self, e, pure, snap):
        if not pure or e[0] in ("srec",):
            return
        try:
            now = self.ev(e)
        except Decline:
            return
        if now is ABSENT or canon_or_none(now) != canon_or_none(snap):
            self.feats.add("loop-body-mutates-iterated-" + ("oosvar" if e[0] in ("oos", "oosall") or (e[0] == "index" and e[1][0] == "oos") else "local"))

    def _iterate(self, e, binder):
        v, pure = self._loop_source(e)
        if v is ABSENT:
            raise Decline("loop over absent")
        if is_map(v):
            snap = dcopy(v)
            items = [(k, x) for k, x in snap.items()]
        elif is_arr(v):
            snap = dcopy(v)
            items = [(i + 1, x) for i, x in enumerate(snap)]
        else:
            raise Decline("loop over a scalar")
        self.push()   # frame for the loop variables
        try:
            for k, x in items:
                self.tick()
                if x is None:
                    raise Decline("null element")
                binder(k, x, is_arr(v))
                try:
                    self.exec_block(self._cur_body)
                except _Break:
                    self.bump("break")
                    self._note_mutation(e, pure, snap)
                    break
                except _Continue:
                    self.bump("continue")
                self._note_mutation(e, pure, snap)
        finally:
            self.pop()

    def st_for1(self, s):
        self.bump("for1")
        (vt, vn), e, body = s[1], s[2], s[3]
        saved = getattr(self, "_cur_body", None)
        self._cur_body = body

        def binder(k, x, isarr):
            # maps: bound to the key; arrays: bound to the value
            self.frames[-1].pop(vn, None)
            self.bind(vt, vn, x if isarr else k)
        try:
            self._iterate(e, binder)
        finally:
            self._cur_body = saved

    def st_for2(self, s):
        self.bump("for2")
        (kt, kn), (vt, vn), e, body = s[1], s[2], s[3], s[4]
        if kn == vn:
            raise Decline("same name for key and value")
        saved = getattr(self, "_cur_body", None)
        self._cur_body = body

        def binder(k, x, isarr):
            self.frames[-1].pop(kn, None)
            self.frames[-1].pop(vn, None)
            self.bind(kt, kn, k)
            self.bind(vt, vn, x)
        try:
            self._iterate(e, binder)
        finally:
            self._cur_body = saved

    def st_formulti(self, s):
        self.bump("formulti")
        knames, vn, e, body = s[1], s[2], s[3], s[4]
        if len(set(knames + [vn])) != len(knames) + 1:
            raise Decline("duplicate loop variable names")
        v, pure = self._loop_source(e)
        if v is ABSENT:
            raise Decline("loop over absent")
        if not is_map(v):
            raise Decline("multi-key loop over a non-map")
        snap = dcopy(v)
        self.push()
        try:
            def rec(level, m, keys):
                for k, x in m.items():
                    self.tick()
                    if level == len(knames) - 1:
                        if x is None:
                            raise Decline("null")
                        for kn, kv in zip(knames, keys + [k]):
                            self.frames[-1].pop(kn, None)
                            self.bind(None, kn, kv)
                        self.frames[-1].pop(vn, None)
                        self.bind(None, vn, x)
                        try:
                            self.exec_block(body)
                        except _Continue:
                            self.bump("continue")
                        self._note_mutation(e, pure, snap)
                    else:
                        # "If the map isn't deep enough then the loop body won't be executed"
                        if is_map(x):
                            rec(level + 1, x, keys + [k])
                        elif is_arr(x):
                            raise Decline("multi-key loop descending into an array")
            try:
                rec(0, snap, [])
            except _Break:
                self.bump("break")
                self._note_mutation(e, pure, snap)
        finally:
            self.pop()

    def st_forc(self, s):
        self.bump("forc")
        inits, cond, steps, body = s[1], s[2], s[3], s[4]
        self.push()
        try:
            self.exec_stmts(inits)
            while True:
                self.tick()
                if cond is not None and not self.cond_value(cond):
                    break
                try:
                    self.exec_block(body)
                except _Break:
                    self.bump("break")
                    break
                except _Continue:
                    self.bump("continue")
                self.exec_stmts(steps)
        finally:
            self.pop()

    def st_break(self, s):
        raise _Break()

    def st_continue(self, s):
        raise _Continue()

    def st_return(self, s):
        self.bump("return")
        if self.callkinds and self.callkinds[-1] == "subr":
            self.feats.add("return-executed-in-subr")
        if s[1] is None:
            raise _Return(ABSENT)
        v = self.ev(s[1])
        if v is None:
            raise Decline("null")
        raise _Return(v)

    def st_call(self, s):
        self.bump("subr-call")
        sub = self.subrs.get(s[1])
        if sub is None:
            raise Decline("unknown subroutine")
        args = [self.ev(a) for a in s[2]]
        fv = FuncVal(sub[2], None, sub[3], s[1], False, None)
        r = self.call_func(fv, args, is_subr=True)
        if r is not ABSENT:
            raise Decline("subroutine returned a value")

    def st_bare(self, s):
        v = self.ev(s[1])
        if self.verb == "filter":
            if not is_bool(v):
                raise Decline("non-boolean bare statement in filter")
            self.filter_result = v
            self.bump("bare-boolean")

    def st_filter(self, s):
        if self.verb == "filter":
            raise Decline("filter keyword inside mlr filter")
        v = self.ev(s[1])
        if not is_bool(v):
            raise Decline("non-boolean filter statement")
        self.filter_result = v
        self.bump("filter-stmt")

    def _print(self, s, newline):
        self.bump("print")
        args = s[1]
        if len(args) == 0:
            self.out_text("", newline)
            return
        vals = [self.ev(a) for a in args]
        if len(vals) == 1 and (is_map(vals[0]) or is_arr(vals[0])):
            if not newline:
                raise Decline("printn of a collection")
            self.out_json(vals[0])
            return
        self.out_text(" ".join(fmt_scalar(v) for v in vals), newline)

    def st_print(self, s):
        self._print(s, True)

    def st_printn(self, s):
        self._print(s, False)

    def st_dump(self, s):
        self.bump("dump")
        if s[1] is None:
            self.out_json(self.oos)
            return
        v = self.ev(s[1])
        if is_map(v) or is_arr(v):
            self.out_json(v)
        else:
            if v is ABSENT:
                raise Decline("dump of absent")
            self.out_text(fmt_scalar(v), True)

    def st_emit1(self, s):
        self.bump("emit1")
        if s[1][0] in ("local", "oos", "index", "bcall", "ucall", "lcall"):
            # a variable, or a function value that may be (a reference to) its argument, e.g. mapsum(@m) with one argument
            self.feats.add("emit1-of-variable")
        v = self.ev(s[1])
        if not is_map(v):
            raise Decline("emit1 of a non-map")
        self.emit_record(dict(v))

    def emit_record(self, rec):
        for k, v in rec.items():
            canon(v)
        self.out_record(rec)

    def st_emitf(self, s):
        self.bump("emitf")
        rec = {}
        for n in s[1]:
            v = self.oos.get(n, ABSENT)
            if v is ABSENT:
                continue
            if is_map(v) or is_arr(v):
                raise Decline("emitf of a collection")
            rec[n] = v
        if not rec:
            raise Decline("emitf with nothing present")
        self.emit_record(rec)

    def st_emit(self, s):
        kind, lashed, emittables, name_exprs = s[1], s[2], s[3], s[4]
        self.bump(kind + ("-lashed" if lashed else "") + ("-by%d" % len(name_exprs)))
        names = []
        for ne in name_exprs:
            n = self.ev(ne)
            if not is_str(n) or n == "":
                raise Decline("emit-by name that is not a string")
            names.append(n)
        if len(set(names)) != len(names):
            raise Decline("duplicate emit-by names")
        prefixed = (kind == "emitp")
        if lashed:
            nv = []
            for em in emittables:
                if em[0] not in ("oos", "local"):
                    raise Decline("lashed emittable that is not a named variable")
                nv.append((em[1], self.ev(em)))
            if len(set(n for n, _ in nv)) != len(nv):
                raise Decline("same name twice in a lashed emit")
            self.emit_named(nv, names, prefixed)
            return
        em = emittables[0]
        if em[0] in ("oos", "local"):
            self.emit_named([(em[1], self.ev(em))], names, prefixed)
        elif em[0] in ("bcall", "ucall"):
            v = self.ev(em)
            if prefixed:
                raise Decline("emitp of a function value: the prefix name is not documented")
            if not is_map(v):
                raise Decline("emit of a non-map function value")
            if names:
                raise Decline("emit-by on a function value")
            self.emit_named([("_", v)], names, prefixed, nameless=True)
        elif em[0] in ("oosall", "all", "srec", "map"):
            # "emit @*" / "emit all" / "emit mapexpr": every top-level key is emitted as its own named emittable
            v = self.oos if em[0] == "all" else self.ev(em)
            if not is_map(v):
                raise Decline("emit of non-map")
            if em[0] in ("srec", "map"):
                self.feats.add("emit-mapexpr-keys-separately")
            for k, x in list(v.items()):
                self.emit_named([(k, x)], names, prefixed)
        else:
            raise Decline("emittable kind")

    def emit_named(self, nv, names, prefixed, nameless=False):
        lead_name, lead = nv[0]
        if lead is ABSENT:
            if len(nv) > 1:
                raise Decline("lashed emit with absent leader")
            return   # nothing to emit
        for n, v in nv:
            if v is ABSENT or v is None or is_fun(v):
                raise Decline("absent/function among lashed emittables")
        for n, _ in nv:
            if n in names:
                raise Decline("emit-by name equal to an emittable name")
        if not names:
            if prefixed:
                rec = {}
                for n, v in nv:
                    rec[n] = dcopy(v)
                self.emit_record(rec)
                return
            if all(not is_map(v) for _, v in nv):
                if any(is_arr(v) for _, v in nv):
                    raise Decline("emit of array")
                self.emit_record({n: v for n, v in nv})
                return
            if len(nv) > 1:
                raise Decline("lashed non-prefixed emit of maps without names (keys collide)")
            self.emit_deepest(lead)
            return
        # with names: split the leading map level by level
        if not is_map(lead):
            raise Decline("emit-by on a non-map")
        self.emit_split(nv, names, {}, prefixed)

    def emit_deepest(self, m):
        """emit @x without names: 'emit takes the deepest map key as the output-record key' - one record per
        terminal map.  Mixed levels (maps beside scalars) are not documented."""
        if len(m) == 0:
            raise Decline("emit of empty map")
        kinds = set(is_map(v) for v in m.values())
        if kinds == {False}:
            self.emit_record(dict(m))
        elif kinds == {True}:
            for v in m.values():
                self.emit_deepest(v)
        else:
            raise Decline("emit of a map with mixed terminal and map values")

    def emit_split(self, nv, names, prefix, prefixed):
        lead_name, lead = nv[0]
        name = names[0]
        if len(lead) == 0:
            raise Decline("emit-by over an empty map")
        for key, sub in lead.items():
            subs = []
            for n, v in nv:
                if not is_map(v) or key not in v:
                    raise Decline("lashed emittables of different shapes")
                subs.append((n, v[key]))
            newprefix = dict(prefix)
            newprefix[name] = key
            if len(names) > 1:
                if not all(is_map(x) for _, x in subs):
                    raise Decline("more emit-by names than map levels")
                self.emit_split(subs, names[1:], newprefix, prefixed)
                continue
            rec = dict(newprefix)
            allmaps = all(is_map(x) for _, x in subs)
            nomaps = all(not is_map(x) for _, x in subs)
            if not (allmaps or nomaps):
                raise Decline("mixed terminal/map values under emit-by")
            if prefixed or nomaps:
                for n, x in subs:
                    if is_arr(x):
                        raise Decline("array under emit")
                    if n in rec:
                        raise Decline("name collision in emitted record")
                    rec[n] = dcopy(x)
            else:
                if len(newprefix) > 1:
                    raise Decline("emit with >= 2 names and remaining map levels: prose and recorded example disagree")
                for n, x in subs:
                    for k2, v2 in x.items():
                        if k2 in rec:
                            raise Decline("key collision when splicing")
                        rec[k2] = dcopy(v2)
            self.emit_record(rec)

    # ---- driver
    def run_block(self, stmts):
        self.push_frameset()
        try:
            try:
                self.exec_stmts(stmts)
            except _Return:
                raise Decline("return outside a function")
            except (_Break, _Continue):
                raise Decline("break/continue outside a loop")
        finally:
            self.pop_frameset()

    def run(self, records):
        """records: list of dicts (ordered). Returns list of output items; raises Fatal / Decline."""
        global CUR_FEATS
        CUR_FEATS = self.feats
        self.rec = None
        self.NR = None
        for b in self.begins:
            self.run_block(b)
        n = 0
        for r in records:
            n += 1
            self.NR = n
            self.rec = dcopy(r)
            prev_filter = self.filter_result if n > 1 else None
            self.filter_result = None
            self.run_block(self.main)
            if self.filter_result is None and prev_filter is not None:
                self.feats.add("no-filter-statement-executed-after-a-record-that-executed-one")
            keep = True
            if self.verb == "filter":
                if self.filter_result is None:
                    raise Decline("mlr filter without an executed bare boolean")
                keep = self.filter_result
            elif self.filter_result is not None:
                keep = self.filter_result
            if self.invert:
                keep = not keep
            if keep and not self.quiet:
                self.out_record(self.rec)
            if self.filter_result is None:
                self.filter_result = prev_filter    # only for the feature note above (never used for keep)
        self.rec = None
        self.NR = n if n > 0 else None
        for b in self.ends:
            self.run_block(b)
        if self.linebuf is not None:
            raise Decline("output ends inside a printn line")
        return self.out


def _mentions(e, base):
    if isinstance(e, tuple) and len(e) == len(base) and e == base:
        return True
    if isinstance(e, (tuple, list)):
        return any(_mentions(x, base) for x in e)
    return False


def canon_or_none(v):
    try:
        return canon(v)
    except Decline:
        return None


# --------------------------------------------------------------------------------------------
# builtins (each from its `mlr help function` text)

def _need(cond, why):
    if not cond:
        raise Decline(why)


def bi_typeof(v):
    return typeof(v)


def _asserting(pred, name):
    def f(v):
        if pred(v):
            return v
        raise Fatal("asserting_%s failed" % name)
    return f


def _is_null(v):
    return v is ABSENT or (is_str(v) and v == "")


def bi_length(v):
    if v is ABSENT:
        raise Decline("length of absent")
    if is_map(v) or is_arr(v):
        return len(v)
    return 1


def bi_depth(v):
    if v is ABSENT:
        raise Decline("depth of absent")
    if is_map(v):
        if not v:
            raise Decline("depth of empty map")
        return 1 + max(bi_depth(x) for x in v.values())
    if is_arr(v):
        if not v:
            raise Decline("depth of empty array")
        return 1 + max(bi_depth(x) for x in v)
    return 0


def bi_leafcount(v):
    if is_map(v):
        return sum(bi_leafcount(x) for x in v.values())
    if is_arr(v):
        return sum(bi_leafcount(x) for x in v)
    if v is ABSENT:
        raise Decline("leafcount of absent")
    return 1


def bi_haskey(m, k):
    if is_map(m):
        if not (is_int(k) or is_str(k)) or k == "":
            raise Decline("haskey with a key that is neither int nor non-empty string")
        return mapkey(k) in m
    if is_arr(m):
        if not is_int(k):
            raise Decline("haskey on array with non-int")
        n = len(m)
        return (1 <= k <= n) or (-n <= k <= -1)
    raise Decline("haskey on non-collection is an error")


def bi_mapsum(*ms):
    out = {}
    for m in ms:
        _need(is_map(m), "mapsum of non-map")
        for k, v in m.items():
            out[k] = dcopy(v)
    return out


def bi_mapdiff(*ms):
    if not ms:
        return {}
    for m in ms:
        _need(is_map(m), "mapdiff of non-map")
    out = dcopy(ms[0])
    for m in ms[1:]:
        for k in m:
            out.pop(k, None)
    return out


def _keyargs(args):
    keys = []
    for a in args:
        if is_arr(a):
            for x in a:
                _need(is_int(x) or (is_str(x) and x != ""), "key list element")
                keys.append(mapkey(x))
        else:
            _need(is_int(a) or (is_str(a) and a != ""), "key argument")
            keys.append(mapkey(a))
    return keys


def bi_mapexcept(m, *ks):
    _need(is_map(m), "mapexcept of non-map")
    keys = set(_keyargs(ks))
    return {k: dcopy(v) for k, v in m.items() if k not in keys}


def bi_mapselect(m, *ks):
    _need(is_map(m), "mapselect of non-map")
    keys = _keyargs(ks)
    # result order: the documentation's examples keep the order of the input map when the keys are listed in
    # that order; for other orders it is not fixed, so decline
    present = [k for k in keys if k in m]
    inorder = [k for k in m if k in set(keys)]
    if present != inorder:
        raise Decline("mapselect with keys in a different order than the map")
    return {k: dcopy(m[k]) for k in inorder}


def bi_append(a, v):
    _need(is_arr(a), "append to non-array")
    _need(v is not ABSENT, "append absent")
    return dcopy(a) + [dcopy(v)]


def bi_concat(*xs):
    out = []
    for x in xs:
        _need(x is not ABSENT, "concat absent")
        if is_arr(x):
            out.extend(dcopy(x))
        else:
            out.append(dcopy(x))
    if len(xs) == 1 and not is_arr(xs[0]):
        raise Decline("concat of one scalar")
    return out


def bi_get_keys(m):
    if is_map(m):
        return list(m.keys())
    if is_arr(m):
        return list(range(1, len(m) + 1))
    raise Decline("get_keys of non-collection")


def bi_get_values(m):
    if is_map(m):
        return [dcopy(v) for v in m.values()]
    if is_arr(m):
        return dcopy(m)
    raise Decline("get_values of non-collection")


def _joinable(v):
    _need(is_int(v) or (is_str(v)), "join of non int/string")
    return fmt_scalar(v)


def bi_joink(m, sep):
    _need(is_str(sep), "separator")
    if is_map(m):
        return sep.join(m.keys())
    if is_arr(m):
        return sep.join(str(i) for i in range(1, len(m) + 1))
    raise Decline("joink of non-collection")


def bi_joinv(m, sep):
    _need(is_str(sep), "separator")
    if is_map(m):
        return sep.join(_joinable(v) for v in m.values())
    if is_arr(m):
        return sep.join(_joinable(v) for v in m)
    raise Decline("joinv of non-collection")


def bi_joinkv(m, ps, fs):
    _need(is_str(ps) and is_str(fs), "separator")
    if is_map(m):
        return fs.join(k + ps + _joinable(v) for k, v in m.items())
    if is_arr(m):
        return fs.join(str(i + 1) + ps + _joinable(v) for i, v in enumerate(m))
    raise Decline("joinkv of non-collection")


def bi_splitax(s, sep):
    _need(is_str(s) and s != "" and is_str(sep) and sep != "", "splitax operands")
    return s.split(sep)


def bi_strlen(s):
    if is_str(s):
        _need(s.isascii(), "ascii")
        return len(s)
    # reference-main-data-types.md: "error ... doing strlen or substr on a non-string"
    raise Decline("strlen of non-string is an error value")


def bi_toupper(s):
    _need(is_str(s) and s.isascii(), "toupper of non-string")
    return s.upper()


def bi_tolower(s):
    _need(is_str(s) and s.isascii(), "tolower of non-string")
    return s.lower()


def bi_abs(v):
    if v is ABSENT:
        return ABSENT
    _need(is_int(v), "abs of non-int")
    return abs(v)


def _minmax(which):
    def f(*xs):
        vals = [x for x in xs if x is not ABSENT]
        for x in vals:
            _need(is_int(x), which + " of non-int (collation across types is C08/C09)")
        if not vals:
            if not xs:
                raise Decline(which + " of nothing")
            return ABSENT
        return max(vals) if which == "max" else min(vals)
    return f


def bi_string(v):
    _need(is_int(v) or is_str(v), "string() of other types")
    return fmt_scalar(v)


def bi_scalar_only(v):
    if is_map(v) or is_arr(v) or is_fun(v):
        raise Decline("scalar predicate on a collection")
    return True


def bi_present_only(v):
    if v is ABSENT:
        raise Decline("predicate on absent")
    return True


def bi_asserting_null(v):
    if _is_null(v):
        return v
    raise Fatal("asserting_null")


BUILTINS = {
    "typeof": bi_typeof,
    "is_present": lambda v: v is not ABSENT,
    "is_absent": lambda v: v is ABSENT,
    "is_empty": lambda v: is_str(v) and v == "",
    "is_not_empty": lambda v: bi_scalar_only(v) and (v is not ABSENT) and not (is_str(v) and v == ""),
    "is_null": _is_null,
    "is_not_null": lambda v: not _is_null(v),
    "is_map": is_map,
    "is_not_map": lambda v: bi_present_only(v) and not is_map(v),
    "is_array": is_arr,
    "is_not_array": lambda v: bi_present_only(v) and not is_arr(v),
    "is_int": is_int,
    "is_float": is_float,
    "is_numeric": is_num,
    "is_boolean": is_bool,
    "is_string": is_str,
    "is_empty_map": lambda v: is_map(v) and len(v) == 0,
    "is_nonempty_map": lambda v: is_map(v) and len(v) > 0,
    "asserting_int": _asserting(is_int, "int"),
    "asserting_string": _asserting(is_str, "string"),
    "asserting_map": _asserting(is_map, "map"),
    "asserting_array": _asserting(is_arr, "array"),
    "asserting_bool": _asserting(is_bool, "bool"),
    "asserting_numeric": _asserting(is_num, "numeric"),
    "asserting_present": _asserting(lambda v: v is not ABSENT, "present"),
    "asserting_absent": _asserting(lambda v: v is ABSENT, "absent"),
    "asserting_not_null": _asserting(lambda v: not _is_null(v), "not_null"),
    "asserting_null": bi_asserting_null,
    "asserting_not_empty": _asserting(lambda v: v is not ABSENT and not (is_str(v) and v == ""), "not_empty"),
    "length": bi_length,
    "depth": bi_depth,
    "leafcount": bi_leafcount,
    "haskey": bi_haskey,
    "mapsum": bi_mapsum,
    "mapdiff": bi_mapdiff,
    "mapexcept": bi_mapexcept,
    "mapselect": bi_mapselect,
    "append": bi_append,
    "concat": bi_concat,
    "get_keys": bi_get_keys,
    "get_values": bi_get_values,
    "joink": bi_joink,
    "joinv": bi_joinv,
    "joinkv": bi_joinkv,
    "splitax": bi_splitax,
    "strlen": bi_strlen,
    "toupper": bi_toupper,
    "tolower": bi_tolower,
    "abs": bi_abs,
    "min": _minmax("min"),
    "max": _minmax("max"),
    "string": bi_string,
}


# ---- higher-order functions (reference-dsl-higher-order-functions.md)

def _hof_fun(interp, f, nargs):
    if not is_fun(f):
        raise Decline("HOF argument that is not a function")
    if len(f.params) != nargs:
        raise Decline("HOF function with the wrong arity (run-time error)")
    return f


def _single_entry(v):
    if not is_map(v) or len(v) != 1:
        raise Decline("map HOF function did not return a single-entry map (run-time error)")
    (k, x), = v.items()
    return k, x


def hof_apply(interp, args):
    c, f = args
    if is_arr(c):
        f = _hof_fun(interp, f, 1)
        out = []
        for x in list(c):
            r = interp.call_func(f, [x])
            if r is ABSENT:
                raise Decline("apply function returned absent")
            out.append(r)
        return out
    if is_map(c):
        f = _hof_fun(interp, f, 2)
        out = {}
        for k, x in list(c.items()):
            nk, nx = _single_entry(interp.call_func(f, [k, x]))
            out[nk] = nx
        return out
    raise Decline("apply on non-collection")


def hof_select(interp, args):
    c, f = args
    if is_arr(c):
        f = _hof_fun(interp, f, 1)
        out = []
        for x in list(c):
            r = interp.call_func(f, [x])
            if not is_bool(r):
                raise Decline("select function returned non-boolean (run-time error)")
            if r:
                out.append(dcopy(x))
        return out
    if is_map(c):
        f = _hof_fun(interp, f, 2)
        out = {}
        for k, x in list(c.items()):
            r = interp.call_func(f, [k, x])
            if not is_bool(r):
                raise Decline("select function returned non-boolean (run-time error)")
            if r:
                out[k] = dcopy(x)
        return out
    raise Decline("select on non-collection")


def _fold(interp, c, f, acc, items):
    if is_arr(c):
        for x in items:
            acc = interp.call_func(f, [acc, x])
            if acc is ABSENT:
                raise Decline("accumulator became absent")
        return acc
    ak, av = acc
    for k, x in items:
        ak, av = _single_entry(interp.call_func(f, [ak, av, k, x]))
    return {ak: av}


def hof_reduce(interp, args):
    c, f = args
    if is_arr(c):
        f = _hof_fun(interp, f, 2)
        if not c:
            raise Decline("reduce of empty array")
        return _fold(interp, c, f, dcopy(c[0]), list(c[1:]))
    if is_map(c):
        f = _hof_fun(interp, f, 4)
        if not c:
            raise Decline("reduce of empty map")
        items = list(c.items())
        return _fold(interp, c, f, (items[0][0], dcopy(items[0][1])), items[1:])
    raise Decline("reduce on non-collection")


def hof_fold(interp, args):
    c, f, init = args
    if init is ABSENT:
        raise Decline("fold with absent start")
    if is_arr(c):
        f = _hof_fun(interp, f, 2)
        return _fold(interp, c, f, dcopy(init), list(c))
    if is_map(c):
        f = _hof_fun(interp, f, 4)
        k, v = _single_entry(init)
        return _fold(interp, c, f, (k, dcopy(v)), list(c.items()))
    raise Decline("fold on non-collection")


def hof_any_every(which):
    def h(interp, args):
        c, f = args
        if is_arr(c):
            f = _hof_fun(interp, f, 1)
            items = [[x] for x in c]
        elif is_map(c):
            f = _hof_fun(interp, f, 2)
            items = [[k, x] for k, x in c.items()]
        else:
            raise Decline("any/every on non-collection")
        res = []
        for it in items:
            r = interp.call_func(f, it)
            if not is_bool(r):
                raise Decline("any/every function returned non-boolean")
            res.append(r)
        # whether evaluation short-circuits is not documented: generated functions here are side-effect free
        return any(res) if which == "any" else all(res)
    return h


def _natural_key_ok(xs):
    # "numbers first numerically and then strings lexically"
    for x in xs:
        if not (is_int(x) or (is_str(x) and x != "" and x.isascii())):
            raise Decline("sort of values other than ints / ASCII strings")


def _natural_sorted(xs, reverse=False):
    nums = sorted([x for x in xs if is_int(x)])
    strs = sorted([x for x in xs if is_str(x)])
    if len(set(nums)) != len(nums) or len(set(strs)) != len(strs):
        pass   # equal elements are indistinguishable, order among them is unobservable
    out = nums + strs
    if reverse:
        out.reverse()
    return out


def hof_sort(interp, args):
    if len(args) == 1:
        c, f = args[0], ""
    else:
        c, f = args
    if is_str(f):
        if f not in ("", "r"):
            raise Decline("sort flags other than r")
        if is_arr(c):
            _natural_key_ok(c)
            return _natural_sorted(c, reverse=(f == "r"))
        if is_map(c):
            ks = list(c.keys())
            # map keys are strings; numeric-looking keys would sort as numbers: keep to non-numeric keys
            for k in ks:
                if not k.isascii() or re.fullmatch(r"[A-Za-z_][A-Za-z0-9_]*", k) is None:
                    raise Decline("sort of a map with numeric-looking keys")
            ks.sort(reverse=(f == "r"))
            return {k: dcopy(c[k]) for k in ks}
        raise Decline("sort on non-collection")
    if is_arr(c):
        f = _hof_fun(interp, f, 2)
        items = [dcopy(x) for x in c]
        wrap = [[x] for x in items]
    elif is_map(c):
        f = _hof_fun(interp, f, 4)
        items = [(k, dcopy(v)) for k, v in c.items()]
        wrap = [[k, v] for k, v in items]
    else:
        raise Decline("sort on non-collection")
    n = len(items)
    if n > 8:
        raise Decline("long custom sort")
    # the comparator must define a strict total order on the elements, else the result depends on the algorithm
    cmpm = {}
    for i in range(n):
        for j in range(n):
            if i == j:
                continue
            r = interp.call_func(f, wrap[i] + wrap[j])
            if not is_int(r):
                raise Decline("comparator returned a non-int")
            cmpm[(i, j)] = r
    for i in range(n):
        for j in range(i + 1, n):
            a, b = cmpm[(i, j)], cmpm[(j, i)]
            if a == 0 or b == 0 or (a < 0) == (b < 0):
                raise Decline("comparator is not a strict total order on these elements")
    import functools
    order = sorted(range(n), key=functools.cmp_to_key(lambda i, j: 0 if i == j else cmpm[(i, j)]))
    for x in range(n - 1):
        for y in range(x + 1, n):
            if cmpm[(order[x], order[y])] >= 0:
                raise Decline("comparator is not transitive")
    if is_arr(c):
        return [items[i] for i in order]
    return {items[i][0]: items[i][1] for i in order}


HOFS = {
    "apply": hof_apply,
    "select": hof_select,
    "reduce": hof_reduce,
    "fold": hof_fold,
    "sort": hof_sort,
    "any": hof_any_every("any"),
    "every": hof_any_every("every"),
}


# --------------------------------------------------------------------------------------------
# parsing of mlr's stdout (--ojsonl) into the same item list

import json as _json

_DEC = _json.JSONDecoder(object_pairs_hook=PairList)


def parse_stdout(text):
    """stdout -> [("t", line) | ("j", canon)].  A line starting with '{' or '[' opens a JSON value that may
    span several lines (print/dump of collections); everything else is a text line."""
    items = []
    i, n = 0, len(text)
    while i < n:
        c = text[i]
        if c in "{[":
            try:
                v, j = _DEC.raw_decode(text, i)
            except ValueError:
                v, j = None, None
            if j is not None and (j == n or text[j] == "\n"):
                items.append(("j", canon_json(v)))
                i = j + 1
                continue
        e = text.find("\n", i)
        if e < 0:
            items.append(("t!", text[i:]))   # unterminated last line
            break
        items.append(("t", text[i:e]))
        i = e + 1
    return items
