"""C03 helper (monitor w): name-level reference semantics of a small set of verbs / DSL statements that change the
names, order or width of a record or reach fields by name - written from reference-verbs.md usage texts and
reference-dsl-variables.md, not from the Go sources.  Only argument choices whose result the documentation
determines are generated (new names are always fresh, single-name reorder, ...).

A model record is a list of [name, value]; value is the input text (the field was never assigned), another exact
text where the documentation determines it (ssub, fill-with), or ASSIGNED (some verb/statement assigned it: the
value is not this property's business, only its presence and position)."""
import re

ASSIGNED = None


def names(rec):
    return [k for k, _ in rec]


def idx(rec, name):
    for i, (k, _) in enumerate(rec):
        if k == name:
            return i
    return -1


_PLAIN_INT = re.compile(r"-?(0|[1-9][0-9]*)$")


def _nonnumeric(v):
    return v is not ASSIGNED and not re.search(r"[0-9]", v) and v.lower() not in ("inf", "+inf", "-inf", "infinity", "+infinity",
                                                                                   "-infinity", "nan", "+nan", "-nan")


class Ctx:
    """What the generator knows about the stream while it builds a chain."""
    def __init__(self, rng, recs, is_id):
        self.rng = rng
        self.recs = [[list(p) for p in r] for r in recs]      # model records (None = dropped)
        self.is_id = is_id                                    # value predicate: the record's identifying value
        self.stale = []                                       # names that existed and were renamed away / removed
        self.fresh_n = 0
        self.introduced = []

    @property
    def protected(self):
        """Names currently holding a record id: generated arguments never remove or assign them."""
        return {k for r in self.recs if r is not None for k, v in r if v is not ASSIGNED and self.is_id(v)}

    def live_names(self):
        seen, out = set(), []
        for r in self.recs:
            if r is None:
                continue
            for k, _ in r:
                if k not in seen:
                    seen.add(k)
                    out.append(k)
        return out

    def fresh(self, stem="n"):
        self.fresh_n += 1
        return f"{stem}{self.fresh_n}x"

    def pick(self, k=1, allow_protected=False, prefer_touched=True):
        """k distinct names to reach for: biased towards names earlier verbs renamed away, removed or introduced."""
        live = [n for n in self.live_names() if allow_protected or n not in self.protected]
        pool = []
        if prefer_touched:
            pool += [n for n in self.stale if allow_protected or n not in self.protected] * 4
            pool += [n for n in self.introduced if n in live] * 2
        pool += live
        out = []
        guard = 0
        while len(out) < k and guard < 100:
            guard += 1
            n = self.rng.choice(pool)
            if n not in out:
                out.append(n)
        return out

    def apply(self, fn):
        before = set(self.live_names())
        self.recs = [None if r is None else fn(r) for r in self.recs]
        after = set(self.live_names())
        for n in sorted(before - after):
            if n not in self.stale:
                self.stale.append(n)
        for n in sorted(after - before):
            if n not in self.introduced:
                self.introduced.append(n)


# ------------------------------------------------------------------------------------------
# verb constructors: (ctx) -> (argv, tag, fn) ; fn maps a model record to a model record or None (record dropped)

def v_rename(c):
    old = c.pick(1, allow_protected=True)[0]
    new = c.fresh("rn")
    def fn(r):
        i = idx(r, old)
        if i >= 0:
            r[i][0] = new
        return r
    return ["rename", f"{old},{new}"], "rename", fn


def v_rename2(c):
    o1, o2 = c.pick(2, allow_protected=True)
    n1, n2 = c.fresh("rn"), c.fresh("rn")
    def fn(r):
        for o, n in ((o1, n1), (o2, n2)):
            i = idx(r, o)
            if i >= 0:
                r[i][0] = n
        return r
    return ["rename", f"{o1},{n1},{o2},{n2}"], "rename-2", fn


def v_rename_r(c):
    # all one-digit f-fields at once; the new family is fresh
    fam = c.fresh("g")
    def fn(r):
        for p in r:
            m = re.match(r"^f([0-9])$", p[0])
            if m:
                p[0] = fam + "_" + m.group(1)
        return r
    return ["rename", "-r", "^f([0-9])$," + fam + "_\\1"], "rename-r", fn


def v_reorder(c):
    f = c.pick(1, allow_protected=True)[0]
    end = c.rng.random() < 0.5
    def fn(r):
        i = idx(r, f)
        if i < 0:
            return r
        p = r.pop(i)
        return r + [p] if end else [p] + r
    return ["reorder"] + (["-e"] if end else []) + ["-f", f], "reorder-e" if end else "reorder", fn


def v_cut_x(c):
    fs = c.pick(c.rng.choice([1, 1, 2]))
    def fn(r):
        return [p for p in r if p[0] not in fs]
    return ["cut", "-x", "-f", ",".join(fs)], "cut-x", fn


def v_cut_f(c):
    live = c.live_names()
    keep = [n for n in live if n in c.protected or c.rng.random() < 0.8]
    extra = c.pick(1)
    fs = keep + [e for e in extra if e not in keep]
    c.rng.shuffle(fs)
    ordered = c.rng.random() < 0.4
    def fn(r):
        if ordered:
            out = []
            for f in fs:
                i = idx(r, f)
                if i >= 0:
                    out.append(r[i])
            return out
        return [p for p in r if p[0] in fs]
    return ["cut"] + (["-o"] if ordered else []) + ["-f", ",".join(fs)], "cut-o" if ordered else "cut-f", fn


def v_label(c):
    n = c.rng.choice([1, 2, 3])
    new = [c.fresh("lb") for _ in range(n)]
    def fn(r):
        for i in range(min(n, len(r))):
            r[i][0] = new[i]
        return r
    return ["label", ",".join(new)], "label", fn


def v_sort_within(c):
    def fn(r):
        return sorted(r, key=lambda p: p[0].encode())
    return ["sort-within-records"], "sort-within-records", fn


def v_put_new(c):
    n = c.fresh("pn")
    def fn(r):
        return r + [[n, ASSIGNED]]
    return ["put", "${%s} = NR . \"v\"" % n], "put-new", fn


def v_put_assign(c):
    f = c.pick(1)[0]
    def fn(r):
        i = idx(r, f)
        if i >= 0:
            r[i][1] = ASSIGNED
            return r
        return r + [[f, ASSIGNED]]
    return ["put", "${%s} = \"new\"" % f], "put-assign", fn


def v_put_copy(c):
    f = c.pick(1, allow_protected=True)[0]
    n = c.fresh("cp")
    def fn(r):
        i = idx(r, f)
        if i < 0:
            return r               # absent right-hand side: the assignment is skipped (reference-main-null-data.md)
        return r + [[n, r[i][1]]]
    return ["put", "${%s} = ${%s}" % (n, f)], "put-copy", fn


def v_unset(c):
    f = c.pick(1)[0]
    def fn(r):
        return [p for p in r if p[0] != f]
    return ["put", "unset ${%s}" % f], "put-unset", fn


def v_mapexcept(c):
    f = c.pick(1)[0]
    emit = c.rng.random() < 0.4
    def fn(r):
        return [p for p in r if p[0] != f]
    if emit:
        return ["put", "-q", 'emit mapexcept($*, "%s")' % f], "emit-mapexcept", fn
    return ["put", '$* = mapexcept($*, "%s")' % f], "put-mapexcept", fn


def v_mapsum_front(c):
    n = c.fresh("ms")
    def fn(r):
        return [[n, ASSIGNED]] + r
    return ["put", '$* = mapsum({"%s": "v"}, $*)' % n], "put-mapsum-front", fn


def v_nest(c):
    f = c.pick(1)[0]
    def fn(r):
        i = idx(r, f)
        if i < 0 or r[i][1] is ASSIGNED:
            return r if i < 0 else "decline"
        pieces = r[i][1].split(";")
        return r[:i] + [[f"{f}_{j+1}", pc] for j, pc in enumerate(pieces)] + r[i + 1:]
    return ["nest", "--explode", "--values", "--across-fields", "-f", f, "--nested-fs", ";"], "nest-explode-fields", fn


def v_sec2gmt(c):
    f = c.pick(1, allow_protected=True)[0]
    verb = c.rng.choice(["sec2gmt", "sec2gmtdate"])
    def fn(r):
        i = idx(r, f)
        if i >= 0 and not _nonnumeric(r[i][1]):
            r[i][1] = ASSIGNED       # numbers are rewritten; "leaves non-numbers as-is"
        return r
    return [verb, f], verb, fn


def v_ssub(c):
    fs = c.pick(c.rng.choice([1, 2]), allow_protected=True)
    old, new = c.rng.choice([("1", "ONE"), ("e", "EE"), ("0", "zero"), (".", "DOT"), ("r", "RR")])
    def fn(r):
        for f in fs:
            i = idx(r, f)
            if i >= 0 and r[i][1] is not ASSIGNED:
                # what the verb does to a value that infers as a number depends on the inference flags (not stated in the
                # usage text): exact only for values that cannot be numbers
                r[i][1] = r[i][1].replace(old, new, 1) if _nonnumeric(r[i][1]) else ASSIGNED
        return r
    return ["ssub", "-f", ",".join(fs), old, new], "ssub", fn


def v_cat_n(c):
    n = c.fresh("ix")
    def fn(r):
        return [[n, ASSIGNED]] + r
    return ["cat", "-N", n], "cat-N", fn


def v_having(c):
    f = c.pick(1, allow_protected=True)[0]
    def fn(r):
        return r if idx(r, f) >= 0 else None
    return ["having-fields", "--at-least", f], "having-fields", fn


def v_filter_present(c):
    f = c.pick(1, allow_protected=True)[0]
    neg = c.rng.random() < 0.4
    def fn(r):
        present = idx(r, f) >= 0
        return r if present != neg else None
    return ["filter", ("is_absent(${%s})" if neg else "is_present(${%s})") % f], "filter-absent" if neg else "filter-present", fn


def v_positional_name(c):
    k = c.rng.randint(1, 14)
    n = c.fresh("ps")
    def fn(r):
        if k > len(r):
            return "decline"       # out-of-bounds position on the left-hand side: not documented
        r[k - 1][0] = n
        return r
    return ["put", '$[[%d]] = "%s"' % (k, n)], "put-positional-name", fn


def v_positional_value(c):
    k = c.rng.randint(2, 14)
    def fn(r):
        if k > len(r) or r[k - 1][0] in c.protected:
            return "decline"
        r[k - 1][1] = ASSIGNED
        return r
    return ["put", '$[[[%d]]] = "pv"' % k], "put-positional-value", fn


def v_template(c):
    live = c.live_names()
    fs = [n for n in live if n in c.protected or c.rng.random() < 0.75] + c.pick(1)
    seen = set()
    fs = [f for f in fs if not (f in seen or seen.add(f))]
    c.rng.shuffle(fs)
    def fn(r):
        d = {k: v for k, v in r}
        return [[f, d[f] if f in d else "X"] for f in fs]
    return ["template", "--fill-with", "X", "-f", ",".join(fs)], "template", fn


def v_unsparsify_f(c):
    fs = c.pick(2, allow_protected=True)
    def fn(r):
        return r + [[f, "U"] for f in fs if idx(r, f) < 0]
    return ["unsparsify", "--fill-with", "U", "-f", ",".join(fs)], "unsparsify-f", fn


def v_sort(c):
    f = c.pick(1, allow_protected=True)[0]
    fl = c.rng.choice(["-f", "-nr", "-c", "-t"])
    return ["sort", fl, f], "sort" + fl, lambda r: r


def v_fill_empty(c):
    def fn(r):
        for p in r:
            if p[1] == "":
                p[1] = "N/A"
        return r
    return ["fill-empty"], "fill-empty", fn


def v_case_key(c):
    f = c.pick(1, allow_protected=True)[0]
    up = f.upper()
    if up == f or up in c.live_names() or up in c.stale:
        return v_rename(c)
    def fn(r):
        i = idx(r, f)
        if i >= 0:
            r[i][0] = up
        return r
    return ["case", "-u", "-k", "-f", f], "case-k", fn


def v_count_similar(c):
    f = c.pick(1, allow_protected=True)[0]
    n = c.fresh("cs")
    def fn(r):
        return r + [[n, ASSIGNED]] if idx(r, f) >= 0 else None
    return ["count-similar", "-g", f, "-o", n], "count-similar", fn


def v_tac(c):
    return ["tac"], "tac", lambda r: r


SHAPERS = [v_rename, v_rename, v_rename, v_rename2, v_rename_r, v_reorder, v_reorder, v_cut_x, v_cut_f, v_label, v_sort_within,
           v_put_new, v_put_new, v_unset, v_unset, v_mapexcept, v_mapsum_front, v_nest, v_cat_n, v_positional_name, v_template,
           v_unsparsify_f, v_case_key, v_put_assign]
REACHERS = [v_cut_x, v_cut_x, v_sec2gmt, v_sec2gmt, v_put_assign, v_put_assign, v_put_copy, v_put_copy, v_unset, v_mapexcept,
            v_ssub, v_having, v_filter_present, v_reorder, v_rename, v_rename, v_cut_f, v_nest, v_positional_value, v_sort,
            v_unsparsify_f, v_case_key, v_fill_empty, v_tac, v_template]


def build_chain(rng, recs, is_id, nverbs):
    """-> (argv of the chain, tags, expected model records (None = dropped)) or None if the model declines."""
    c = Ctx(rng, recs, is_id)
    argv, tags = [], []
    for i in range(nverbs):
        ctor = rng.choice(SHAPERS if i == 0 or (i == 1 and nverbs == 3 and rng.random() < 0.5) else REACHERS)
        a, tag, fn = ctor(c)
        declined = []

        def wrap(r, fn=fn):
            out = fn([list(p) for p in r])
            if isinstance(out, str):
                declined.append(1)
                return r
            return out
        c.apply(wrap)
        if declined:
            return None
        # a record whose names are not unique is outside every usage text's description
        for r in c.recs:
            if r is not None and len(set(names(r))) != len(r):
                return None
        argv += (["then"] if argv else []) + a
        tags.append(tag)
    return argv, tags, c.recs
