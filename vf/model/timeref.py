"""Reference model for C16: proleptic Gregorian calendar (Python datetime.date, years 1..9999),
IANA zones (zoneinfo on /usr/share/zoneinfo), a hand-written strftime for exactly the %-codes the
Miller docs list, DATEDIF, and the d/h/m/s family.  Integer arithmetic only: an instant is a pair
(epoch seconds, nanoseconds 0..999999999), never a float."""
import bisect
import datetime as _dt
import os
import re
import struct
import zoneinfo
from fractions import Fraction

EPOCH_ORD = _dt.date(1970, 1, 1).toordinal()          # 719163
MIN_SEC = (1 - EPOCH_ORD) * 86400                     # 0001-01-01T00:00:00Z = -62135596800
MAX_SEC = (_dt.date(9999, 12, 31).toordinal() - EPOCH_ORD) * 86400 + 86399   # 253402300799
I64NS_MIN_SEC = -(2 ** 63) // 10 ** 9                 # floor: -9223372037 (first whole second representable: -9223372036)
I64NS_MAX_SEC = (2 ** 63 - 1) // 10 ** 9              # 9223372036
TABLE_MIN = (_dt.date(1901, 12, 15).toordinal() - EPOCH_ORD) * 86400    # 32-bit TZif era: explicit transition table
TABLE_MAX = (_dt.date(2037, 12, 31).toordinal() - EPOCH_ORD) * 86400
LOCAL_MIN = MIN_SEC + 10 * 86400                      # zone arithmetic is modelled for (nearly) all of years 1..9999:
LOCAL_MAX = MAX_SEC - 10 * 86400                      # zoneinfo applies the first (LMT) type before the table and the POSIX footer after it


def _ysec(y):
    return (_dt.date(y, 1, 1).toordinal() - EPOCH_ORD) * 86400


# windows in which footer-rule transitions are enumerated (the explicit table is always enumerated completely)
FOOTER_WINDOWS = ((TABLE_MAX - 400 * 86400, _ysec(2101)), (_ysec(2400), _ysec(2401)), (_ysec(9990), _ysec(9991)))

WD_FULL = ["Monday", "Tuesday", "Wednesday", "Thursday", "Friday", "Saturday", "Sunday"]
MON_FULL = ["January", "February", "March", "April", "May", "June", "July", "August", "September",
            "October", "November", "December"]

ZONES = ["UTC", "Asia/Kolkata", "Asia/Kathmandu", "Australia/Lord_Howe", "America/Sao_Paulo",
         "America/New_York", "Europe/London", "Europe/Dublin", "Africa/Casablanca", "Pacific/Apia",
         "Asia/Istanbul", "Antarctica/Troll"]

_UTC = _dt.timezone.utc
_EPOCH = _dt.datetime(1970, 1, 1, tzinfo=_UTC)
_ZI = {}


def zi(zone):
    z = _ZI.get(zone)
    if z is None:
        z = _ZI[zone] = zoneinfo.ZoneInfo(zone)
    return z


def in_range(sec):
    return MIN_SEC <= sec <= MAX_SEC


def in_i64ns(sec):
    """whole second sec (and any ns within it) representable as int64 nanoseconds"""
    return -9223372036 <= sec <= 9223372035


class B:
    """broken-down time"""
    __slots__ = ("Y", "m", "d", "H", "M", "S", "ns", "wd", "yd", "off", "abbr", "sec", "isoweek")

    def ymd(self):
        return (self.Y, self.m, self.d)

    def naive(self):
        return (self.Y, self.m, self.d, self.H, self.M, self.S)


def _fill(b, date, sod):
    b.Y, b.m, b.d = date.year, date.month, date.day
    b.H, rem = divmod(sod, 3600)
    b.M, b.S = divmod(rem, 60)
    b.wd = date.weekday()                      # Monday = 0
    b.yd = date.toordinal() - _dt.date(date.year, 1, 1).toordinal() + 1
    b.isoweek = date.isocalendar()[1]


def broken_utc(sec, ns=0):
    """None if outside years 1..9999 (the model declines)."""
    if not in_range(sec):
        return None
    days, sod = divmod(sec, 86400)
    b = B()
    _fill(b, _dt.date.fromordinal(days + EPOCH_ORD), sod)
    b.ns, b.off, b.abbr, b.sec = ns, 0, "UTC", sec
    return b


def offset_at(sec, zone):
    """(utc offset in seconds, abbreviation) at the instant, from zoneinfo."""
    dt = (_EPOCH + _dt.timedelta(seconds=sec)).astimezone(zi(zone))
    off = dt.utcoffset()
    return off.days * 86400 + off.seconds, dt.tzname()


def broken_local(sec, ns, zone):
    if not (MIN_SEC + 2 * 86400 <= sec <= MAX_SEC - 2 * 86400):
        return None
    off, abbr = offset_at(sec, zone)
    ls = sec + off
    days, sod = divmod(ls, 86400)
    b = B()
    _fill(b, _dt.date.fromordinal(days + EPOCH_ORD), sod)
    b.ns, b.off, b.abbr, b.sec = ns, off, abbr, sec
    return b


def naive_to_sec(Y, m, d, H=0, M=0, S=0):
    """fields read as UTC -> epoch seconds"""
    return (_dt.date(Y, m, d).toordinal() - EPOCH_ORD) * 86400 + H * 3600 + M * 60 + S


# ------------------------------------------------------------------------------------------
# float seconds -> candidate (sec, ns) pairs.  The docs do not say how a binary float is
# converted to an instant, and a decimal literal such as 0.7 is a double just below a ns boundary;
# every instant within 2 ns of the exact value of the double is accepted (exact ns behaviour is
# checked through the integer-nanosecond functions instead).

def float_candidates(text, slop=2):
    """All (sec, ns) within +-slop ns of the exact value of the double (floored to ns)."""
    fr = Fraction(float(text))
    total_floor = (fr.numerator * 10 ** 9) // fr.denominator
    return [divmod(total_floor + k, 10 ** 9) for k in sorted(range(-slop, slop + 1), key=abs)]


# ------------------------------------------------------------------------------------------
# strftime

def _z(off):
    sign = "+" if off >= 0 else "-"
    a = abs(off) // 60            # +HHMM: seconds of an odd offset are dropped
    return "%s%02d%02d" % (sign, a // 60, a % 60)


def _i12(H):
    return (H % 12) or 12


def piece(code, b):
    """expected text for one conversion (code without the %), None if the model does not know it"""
    if len(code) == 2 and code[1] == "S" and code[0] in "123456789":
        n = int(code[0])
        return "%02d.%s" % (b.S, ("%09d" % b.ns)[:n])
    c = code
    if c == "A": return WD_FULL[b.wd]
    if c == "a": return WD_FULL[b.wd][:3]
    if c == "B": return MON_FULL[b.m - 1]
    if c in ("b", "h"): return MON_FULL[b.m - 1][:3]
    if c == "C": return "%02d" % (b.Y // 100)
    if c == "c": return "%s %s %2d %02d:%02d:%02d %04d" % (WD_FULL[b.wd][:3], MON_FULL[b.m - 1][:3], b.d, b.H, b.M, b.S, b.Y)
    if c in ("D", "x"): return "%02d/%02d/%02d" % (b.m, b.d, b.Y % 100)
    if c == "d": return "%02d" % b.d
    if c == "e": return "%2d" % b.d
    if c == "F": return "%04d-%02d-%02d" % (b.Y, b.m, b.d)
    if c == "H": return "%02d" % b.H
    if c == "I": return "%02d" % _i12(b.H)
    if c == "j": return "%03d" % b.yd
    if c == "k": return "%2d" % b.H
    if c == "l": return "%2d" % _i12(b.H)
    if c == "M": return "%02d" % b.M
    if c == "m": return "%02d" % b.m
    if c == "n": return "\n"
    if c == "N": return "%09d" % b.ns
    if c == "O": return "%d" % b.ns
    if c == "p": return "AM" if b.H < 12 else "PM"
    if c == "R": return "%02d:%02d" % (b.H, b.M)
    if c == "r": return "%02d:%02d:%02d %s" % (_i12(b.H), b.M, b.S, "AM" if b.H < 12 else "PM")
    if c == "s": return "%d" % b.sec
    if c == "S": return "%02d" % b.S
    if c in ("T", "X"): return "%02d:%02d:%02d" % (b.H, b.M, b.S)
    if c == "t": return "\t"
    if c == "U": return "%02d" % ((b.yd - 1 + 7 - ((b.wd + 1) % 7)) // 7)
    if c == "u": return "%d" % (b.wd + 1)
    if c == "V": return "%02d" % b.isoweek
    if c == "v": return "%2d-%s-%04d" % (b.d, MON_FULL[b.m - 1][:3], b.Y)
    if c == "W": return "%02d" % ((b.yd - 1 + 7 - b.wd) // 7)
    if c == "w": return "%d" % ((b.wd + 1) % 7)
    if c == "Y": return "%04d" % b.Y
    if c == "y": return "%02d" % (b.Y % 100)
    if c == "Z": return b.abbr
    if c == "z": return _z(b.off)
    if c == "%": return "%"
    return None


MODEL_CODES = set("AaBbCcDdeFHhIjklMmnNOpRrsSTtUuVvWwXxYyZz%") | {"%dS" % i for i in range(1, 10)}

_TOK = re.compile(r"%([1-9]S|.)", re.S)


def tokenize(fmt):
    """[(kind, text)] kind 'lit' or 'code' (text without the %)"""
    out = []
    pos = 0
    for m in _TOK.finditer(fmt):
        if m.start() > pos:
            out.append(("lit", fmt[pos:m.start()]))
        out.append(("code", m.group(1)))
        pos = m.end()
    if pos < len(fmt):
        out.append(("lit", fmt[pos:]))
    return out


def strftime_pieces(fmt, b):
    out = []
    for kind, t in tokenize(fmt):
        if kind == "lit":
            out.append((None, t))
        else:
            p = piece(t, b)
            if p is None:
                return None
            out.append((t, p))
    return out


def strftime(fmt, b):
    ps = strftime_pieces(fmt, b)
    return None if ps is None else "".join(p for _, p in ps)


def _cls(ch):
    if ch is None:
        return "end"
    if ch.islower():
        return "lower"
    if ch.isupper():
        return "upper"
    if ch.isdigit():
        return "digit"
    if ch.isspace():
        return "space"
    return "punct"


def culprits(fmt, b, got):
    return [c[:4] for c in culprits_x(fmt, b, got)]


def culprits_x(fmt, b, got):
    """like culprits() with a fifth element: the part of `got` that stands where the token's text was expected.
    [(conversion or 'literal', what follows it in the format: a character class or the next
    conversion, last character of the literal if it is a literal, last character of the literal
    before it if it is a conversion)] for every token of the format
    whose expected text does not line up with `got` in a minimum-cost alignment (each token either
    matches its expected text or is charged 1 and may match anything; ties prefer the earlier
    token) - used only to name the failure in the violation signature."""
    toks = tokenize(fmt)
    ps = strftime_pieces(fmt, b)
    if ps is None:
        return [("?", "?", "", "", "")]
    n = len(toks)

    def nxt(i):
        if i + 1 >= n:
            return "end"
        kind, t = toks[i + 1]
        return "%" + t if kind == "code" else _cls(t[0])

    def report(i):
        kind, t = toks[i]
        if kind == "code":
            prev = "start" if i == 0 else ("code" if toks[i - 1][0] == "code" else toks[i - 1][1][-1:])
            return "%" + t, nxt(i), "", prev
        return "literal", nxt(i), t[-1:], ""
    # cheap path: exactly one wrong conversion
    for i, (kind, t) in enumerate(toks):
        if kind != "code":
            continue
        pre = "".join(p for _, p in ps[:i])
        post = "".join(p for _, p in ps[i + 1:])
        if got.startswith(pre) and got.endswith(post) and len(got) > len(pre) + len(post):
            return [report(i) + (got[len(pre):len(got) - len(post)],)]
    L = len(got)
    INF = 10 ** 6
    memo = {}

    def best(i, pos):
        """(cost, choice) for tokens i.. starting at got[pos]; choice = length taken by a wildcard or -1 for exact"""
        if i == n:
            return (0, None) if pos == L else (INF, None)
        key = (i, pos)
        if key in memo:
            return memo[key]
        exp = ps[i][1]
        cand = []
        kind = toks[i][0]
        lo = 1 if kind == "code" else 0
        hi = min(L - pos, len(exp) + (12 if kind == "code" else 2))
        for ln in range(lo, hi + 1):
            if got[pos:pos + ln] == exp:
                continue
            c = best(i + 1, pos + ln)[0]
            if c < INF:
                cand.append((c + 1, 0, ln))          # wildcard now (preferred on ties)
        if got.startswith(exp, pos):
            c = best(i + 1, pos + len(exp))[0]
            if c < INF:
                cand.append((c, 1, -1))
        r = min(cand) if cand else (INF, 0, None)
        memo[key] = (r[0], r[2])
        return memo[key]
    import sys
    if sys.getrecursionlimit() < 3 * n + 200:
        sys.setrecursionlimit(3 * n + 200)
    cost, _ = best(0, 0)
    if cost >= INF:
        return [("unalignable", "end", "", "", got)]
    out = []
    i, pos = 0, 0
    while i < n:
        c, ch = best(i, pos)
        if ch == -1:
            pos += len(ps[i][1])
        else:
            r = report(i)
            if r not in [o[:4] for o in out]:
                out.append(r + (got[pos:pos + ch],))
            pos += ch
        i += 1
    return out or [("trailing", "end", "", "", "")]


def culprit(fmt, b, got):
    return culprits(fmt, b, got)[0]


def iso_gmt(b, n=0, sep="T", z="Z"):
    s = "%04d-%02d-%02d%s%02d:%02d:%02d" % (b.Y, b.m, b.d, sep, b.H, b.M, b.S)
    if n > 0:
        s += "." + ("%09d" % b.ns)[:n]
    return s + z


def ymd_text(b):
    return "%04d-%02d-%02d" % (b.Y, b.m, b.d)


# ------------------------------------------------------------------------------------------
# documented %-code tables (the docs are the specification; read at run time)

def documented_codes(md_path):
    """-> (strftime codes, strptime codes) as sets of code text without '%', from the two tables
    of reference-dsl-time.md. '%1S, ..., %9S' expands to the nine codes."""
    with open(md_path, encoding="utf-8") as f:
        text = f.read()
    a = text.index("Available format strings for `strftime`")
    bpos = text.index("Available format strings for `strptime`")
    c = text.index("Examples:", bpos)

    def grab(chunk):
        out = set()
        for line in chunk.splitlines():
            if not line.startswith("| `%"):
                continue
            cell = line.split("|")[1]
            codes = re.findall(r"`%([^`]+)`", cell)
            if codes == ["1S", "9S"]:
                codes = ["%dS" % i for i in range(1, 10)]
            out.update(codes)
        return out
    return grab(text[a:bpos]), grab(text[bpos:c])


# ------------------------------------------------------------------------------------------
# zone transitions, read from the TZif file itself (explicit part) and by daily scan + bisection
# through zoneinfo for the part governed by the POSIX footer.

def _tzif_transitions(zone):
    path = os.path.join("/usr/share/zoneinfo", zone)
    with open(path, "rb") as f:
        data = f.read()
    if data[:4] != b"TZif":
        return []
    ver = data[4:5]

    def hdr(o):
        return struct.unpack(">6l", data[o + 20:o + 44])
    isutc, isstd, leap, timecnt, typecnt, charcnt = hdr(0)
    o = 44
    if ver >= b"2":
        o += timecnt * 4 + timecnt + typecnt * 6 + charcnt + leap * 8 + isstd + isutc
        isutc, isstd, leap, timecnt, typecnt, charcnt = hdr(o)
        o += 44
        return list(struct.unpack(">%dq" % timecnt, data[o:o + timecnt * 8]))
    return list(struct.unpack(">%dl" % timecnt, data[o:o + timecnt * 4]))


_TRANS = {}


def _scan(zone, lo, hi, cand):
    """daily scan + bisection through zoneinfo: offset/abbreviation changes in [lo, hi]"""
    step = 86400
    t = lo
    prev = offset_at(t, zone)
    while t < hi:
        nt = min(t + step, hi)
        cur = offset_at(nt, zone)
        if cur != prev:
            a, bb = t, nt
            while bb - a > 1:
                mid = (a + bb) // 2
                if offset_at(mid, zone) == prev:
                    a = mid
                else:
                    bb = mid
            cand.add(bb)
        prev = cur
        t = nt


def transitions(zone):
    """sorted [(T, off_before, off_after, abbr_before, abbr_after)] where the offset or abbreviation changes at instant T
    (first second of the new regime): every transition of the explicit TZif table (1800s LMT changes included), everything
    a daily scan finds in TABLE_MIN..TABLE_MAX, and the footer-rule transitions inside FOOTER_WINDOWS."""
    if zone in _TRANS:
        return _TRANS[zone]
    cand = set(t for t in _tzif_transitions(zone) if LOCAL_MIN <= t <= LOCAL_MAX)
    _scan(zone, TABLE_MIN, TABLE_MAX, cand)
    for lo, hi in FOOTER_WINDOWS:
        _scan(zone, lo, hi, cand)
    out = []
    for T in sorted(cand):
        ob, ab = offset_at(T - 1, zone)
        oa, aa = offset_at(T, zone)
        if (ob, ab) != (oa, aa):
            out.append((T, ob, oa, ab, aa))
    _TRANS[zone] = out
    return out


def abbr_offsets(zone, abbr):
    """every UTC offset that the abbreviation has carried in the zone (table + enumerated footer windows).  An abbreviation
    with more than one offset (Pacific/Apia LMT +12:33:04 and -11:26:56, Europe/Dublin IST +0:34:39 and +1:00) does not
    determine the instant of a wall-clock text."""
    out = set()
    for (_, ob, oa, ab, aa) in transitions(zone):
        if ab == abbr:
            out.add(ob)
        if aa == abbr:
            out.add(oa)
    return sorted(out)


def near_transition(sec, zone, within=2 * 86400):
    tr = transitions(zone)
    ts = [x[0] for x in tr]
    i = bisect.bisect_left(ts, sec - within)
    return i < len(ts) and ts[i] <= sec + within


def local_to_instants(naive, zone):
    """naive = (Y,m,d,H,M,S) wall-clock fields in `zone` -> (kind, [candidate epoch seconds]).
    kind 'normal' (one instant), 'overlap' (two instants, both show these fields; first listed =
    first occurrence), 'gap' (no instant shows these fields; candidates = the reading with the
    offset before the gap and the reading with the offset after it)."""
    ns = naive_to_sec(*naive)
    if not (LOCAL_MIN + 3 * 86400 <= ns <= LOCAL_MAX - 3 * 86400):
        return "unknown", []
    for (T, ob, oa, _, _) in _near(zone, ns):
        if oa > ob and T + ob <= ns < T + oa:
            return "gap", [ns - ob, ns - oa]
        if oa < ob and T + oa <= ns < T + ob:
            return "overlap", [ns - ob, ns - oa]
    # normal: the offset in force
    offs = []
    for probe in (ns - 86400, ns + 86400, ns):
        o = offset_at(probe, zone)[0]
        if o not in offs:
            offs.append(o)
    good = []
    for o in offs:
        t = ns - o
        if offset_at(t, zone)[0] == o and t not in good:
            good.append(t)
    if len(good) == 1:
        return "normal", good
    return "unknown", good


def _near(zone, ns):
    tr = transitions(zone)
    ts = [x[0] for x in tr]
    i = bisect.bisect_left(ts, ns - 2 * 86400)
    out = []
    while i < len(tr) and tr[i][0] <= ns + 2 * 86400:
        out.append(tr[i])
        i += 1
    return out


# ------------------------------------------------------------------------------------------
# datediff (spreadsheet DATEDIF as stated in `mlr help function datediff`)

def _dim(y, m):
    if m == 12:
        return 31
    return (_dt.date(y, m + 1, 1) - _dt.date(y, m, 1)).days


def datediff(sec1, sec2, unit):
    """-> int, or None when the rule as documented does not determine the answer (anniversary of
    a day that does not exist in the target month/year; instants outside years 1..9999)."""
    if not (in_range(sec1) and in_range(sec2)):
        return None
    d1 = _dt.date.fromordinal(sec1 // 86400 + EPOCH_ORD)
    d2 = _dt.date.fromordinal(sec2 // 86400 + EPOCH_ORD)
    sign = 1
    if d1 > d2:
        d1, d2, sign = d2, d1, -1
    u = unit.lower()
    if u == "d":
        return sign * (d2 - d1).days
    months = (d2.year - d1.year) * 12 + (d2.month - d1.month) - (1 if d2.day < d1.day else 0)
    if u == "m":
        return sign * months
    if u == "y":
        return sign * (months // 12)
    if u == "ym":
        return sign * (months % 12)
    if u == "yd":
        years = months // 12
        try:
            s = _dt.date(d1.year + years, d1.month, d1.day)
        except ValueError:
            return None            # Feb 29 anniversary in a non-leap year: not determined by the docs
        return sign * (d2 - s).days
    if u == "md":
        if d2.day >= d1.day:
            return sign * (d2.day - d1.day)
        py, pm = (d2.year, d2.month - 1) if d2.month > 1 else (d2.year - 1, 12)
        if py < 1:
            return None
        if d1.day > _dim(py, pm):
            return None            # start day does not exist in the month before the end date
        return sign * (d2 - _dt.date(py, pm, d1.day)).days
    return None


# ------------------------------------------------------------------------------------------
# d/h/m/s family.  Documented shapes (function help + parsing-and-formatting-fields.md):
#   sec2dhms: 500000 -> 5d18h53m20s, 1 -> 1s, 100 -> 1m40s, 10000 -> 2h46m40s  (leading zero units dropped)
#   sec2hms: 5000 -> 01:23:20 ; fsec2dhms: 500000.25 -> 5d18h53m20.250000s ; fsec2hms: 5000.25 -> 01:23:20.250000
# Zero padding of inner d/h/m/s fields is not pinned by any example, so outputs are compared by
# their numeric field values and by which units are present.

_DHMS = re.compile(r"^(-?)(?:(\d+)d)?(?:(\d+)h)?(?:(\d+)m)?(\d+)s$")
_FDHMS = re.compile(r"^(-?)(?:(\d+)d)?(?:(\d+)h)?(?:(\d+)m)?(\d+)\.(\d{6})s$")
_HMS = re.compile(r"^(-?)(\d{2,}):(\d{2}):(\d{2})$")
_FHMS = re.compile(r"^(-?)(\d{2,}):(\d{2}):(\d{2})\.(\d{6})$")


def parse_dhms(text):
    """-> (negative?, (d,h,m,s) with None for absent units) or None"""
    m = _DHMS.match(text)
    if not m:
        return None
    g = m.groups()
    return g[0] == "-", tuple(None if x is None else int(x) for x in g[1:5])


def expect_dhms(n):
    """unit values for |n| with leading zero units absent"""
    a = abs(n)
    d, r = divmod(a, 86400)
    h, r = divmod(r, 3600)
    m, s = divmod(r, 60)
    vals = [d, h, m, s]
    i = 0
    while i < 3 and vals[i] == 0:
        vals[i] = None
        i += 1
    return tuple(vals)


def canon_dhms(n):
    """a canonical text for n >= 0 in the documented shape (two-digit inner fields)"""
    d, h, m, s = expect_dhms(n)
    out = ""
    first = True
    for v, u in ((d, "d"), (h, "h"), (m, "m"), (s, "s")):
        if v is None:
            continue
        out += ("%d" if first else "%02d") % v + u
        first = False
    return out


def canon_hms(n):
    a = abs(n)
    return ("-" if n < 0 else "") + "%02d:%02d:%02d" % (a // 3600, a % 3600 // 60, a % 60)
