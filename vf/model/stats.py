"""First-principles reference for Miller's aggregating verbs and DSL stats functions (C10).

Everything here is written from the definitions in `mlr <verb> --help`, `mlr help function <f>`,
reference-verbs.md, reference-main-arithmetic.md and sorting.md - not from Miller's Go code.
Exact rational arithmetic (fractions.Fraction) is used for every moment so that the reference
itself has no cancellation error."""
import math
import re
from fractions import Fraction

INT64_MIN = -(1 << 63)
INT64_MAX = (1 << 63) - 1

_DEC_INT = re.compile(r"-?(0|[1-9][0-9]*)\Z")
_HEX_INT = re.compile(r"0x[0-9a-fA-F]+\Z")
# fixed-point decimals, and the other float spellings of reference-main-arithmetic.md / questions about number formats:
# trailing or leading point (5. .5) and decimal exponents (1e3, 1.5E-2)
_DEC_FLT = re.compile(r"-?((0|[1-9][0-9]*)\.[0-9]*|\.[0-9]+|(0|[1-9][0-9]*))([eE][-+]?[0-9]+)?\Z")
# anything else that might be inferred as a number by Miller but that this model does not cover
_MAYBE_NUM = re.compile(r"[-+.0-9]|inf|nan|true|false", re.I)


class Num:
    """A number read from data: kind 'int' or 'float', exact value (Fraction), IEEE value, original text."""
    __slots__ = ("kind", "exact", "f", "text", "i")

    def __init__(self, kind, exact, text, i=None):
        self.kind = kind
        self.exact = exact
        self.text = text
        self.i = i
        self.f = float(exact) if kind == "int" else float(text)

    def __repr__(self):
        return f"Num({self.text})"


def parse(text):
    """Text -> Num, or None for a string/empty.  Raises ValueError for spellings outside the model's
    domain (the generators never produce them; the oracle declines instead of guessing)."""
    if text == "":
        return None
    if _DEC_INT.match(text):
        if text == "-0":
            raise ValueError(text)
        v = int(text)
        if not (INT64_MIN <= v <= INT64_MAX):
            raise ValueError(text)
        return Num("int", Fraction(v), text, v)
    if _HEX_INT.match(text):
        v = int(text, 16)
        if v > INT64_MAX:
            raise ValueError(text)
        return Num("int", Fraction(v), text, v)
    if _DEC_FLT.match(text):
        return Num("float", Fraction(text), text)
    if _MAYBE_NUM.match(text):
        raise ValueError(text)
    return None


def is_numeric_text(text):
    try:
        return parse(text) is not None
    except ValueError:
        return False


# ------------------------------------------------------------------------------------------
# Miller arithmetic on (python int | python float): reference-main-arithmetic.md
# "+ - * : int op int is int unless overflow, then float".

def m_add(a, b):
    if isinstance(a, int) and isinstance(b, int):
        c = a + b
        if INT64_MIN <= c <= INT64_MAX:
            return c
        return float(a) + float(b)
    return float(a) + float(b)


def m_mul(a, b):
    if isinstance(a, int) and isinstance(b, int):
        c = a * b
        if INT64_MIN <= c <= INT64_MAX:
            return c
        return float(a) * float(b)
    return float(a) * float(b)


def num_value(n):
    """Num -> python int or float as Miller would hold it."""
    return n.i if n.kind == "int" else n.f


# ------------------------------------------------------------------------------------------
# moments, from the definitions

def mean(xs):
    return sum(xs, Fraction(0)) / len(xs)


def central(xs, k):
    mu = mean(xs)
    return sum(((x - mu) ** k for x in xs), Fraction(0)) / len(xs)


def var_sample(xs):
    n = len(xs)
    mu = mean(xs)
    return sum(((x - mu) ** 2 for x in xs), Fraction(0)) / (n - 1)


def raw_abs(xs, k):
    return sum((abs(x) ** k for x in xs), Fraction(0)) / len(xs)


def moments(xs):
    """xs: list of Fraction (n >= 1).  Returns dict name -> (value as float or None when undefined,
    conditioning scale for the absolute tolerance).  Conventions (see assumptions in c10.py):
    var = sum (x-mu)^2/(n-1); stddev = sqrt(var); meaneb = sqrt(var/n); mad = sum|x-mu|/n;
    skewness = m3 / s^3 with m3 the population third central moment and s the SAMPLE standard
    deviation; kurtosis = m4/m2^2 - 3 with population moments."""
    n = len(xs)
    out = {}
    mu = mean(xs)
    a1 = float(raw_abs(xs, 1))
    out["mean"] = (float(mu), a1)
    out["mad"] = (float(sum((abs(x - mu) for x in xs), Fraction(0)) / n), a1)
    if n < 2:
        for k in ("var", "stddev", "meaneb", "skewness", "kurtosis"):
            out[k] = ("", 0.0)
        return out
    v = var_sample(xs)
    a2 = float(raw_abs(xs, 2)) * n / (n - 1)
    out["var"] = (float(v), a2)
    sd = math.sqrt(v)
    # d sqrt(v) = dv / (2 sqrt v)
    out["stddev"] = (sd, (a2 / (2 * sd)) if sd > 0 else None)
    out["meaneb"] = (math.sqrt(v / n), (a2 / (2 * sd) / math.sqrt(n)) if sd > 0 else None)
    m2 = central(xs, 2)
    if m2 == 0:
        out["skewness"] = (None, None)
        out["kurtosis"] = (None, None)
    else:
        m3 = central(xs, 3)
        m4 = central(xs, 4)
        s3 = float(v) ** 1.5
        out["skewness"] = (float(m3) / s3, float(raw_abs(xs, 3)) / s3 * (1 + a2 / float(v)))
        out["kurtosis"] = (float(m4 / (m2 * m2)) - 3.0, float(raw_abs(xs, 4)) / float(m2 * m2) * (1 + a2 / float(v)))
    return out


# ------------------------------------------------------------------------------------------
# percentiles: `mlr help function percentiles`, `mlr stats1 --help` (-i: "like R's type=7; default like type=1")

def pct_index(p, n):
    """Non-interpolated: index int(p/100*n) clamped to [0, n-1] (p given as Fraction)."""
    idx = p * n / 100
    i = math.floor(idx) if idx >= 0 else -math.floor(-idx)   # truncation toward zero
    if i < 0:
        i = 0
    if i > n - 1:
        i = n - 1
    return i


def pct_index_set(ptext, n):
    """Indices the documented non-interpolated rule sorted[int(p/100*n)] allows for the percentile written as
    `ptext`: the rule evaluated in exact rational arithmetic on the decimal as written, and on the IEEE double
    nearest to it (a percentile such as 66.6 is necessarily held as a double; 66.6*n/100 may then lie just
    below the integer the decimal gives).  For every p that is exactly representable (all integers, .5, .25 ...)
    the set has one element.  Nothing here depends on the order of floating-point operations."""
    p = Fraction(ptext)
    return {pct_index(p, n), pct_index(Fraction(float(p)), n)}


def pct_boundary(p, n):
    """True when p/100*n is an integer (the rounding boundary of the non-interpolated rule)."""
    return (p * n / 100).denominator == 1


def pct_interp(p, sorted_exact):
    """R type 7 on exact values; returns Fraction."""
    n = len(sorted_exact)
    h = p * (n - 1) / 100
    if h <= 0:
        return sorted_exact[0]
    if h >= n - 1:
        return sorted_exact[-1]
    lo = math.floor(h)
    frac = h - lo
    return sorted_exact[lo] + frac * (sorted_exact[lo + 1] - sorted_exact[lo])


# ------------------------------------------------------------------------------------------
# collation for sorting mixed collections (sorting.md: "numeric data sorts before boolean before
# voids before strings"); numbers by value, strings bytewise/lexically.

def collation_key(text):
    n = parse(text)
    if n is not None:
        return (0, n.exact, "")
    if text == "":
        return (2, 0, "")
    return (3, 0, text.encode("utf-8"))


def sort_texts(texts):
    return sorted(texts, key=collation_key)


def strlen(text):
    return len(text)   # Python str length = number of code points = Miller's strlen on valid UTF-8


def first_mode(texts, anti=False):
    """Most (least) frequent text; first-found wins ties."""
    counts = {}
    for t in texts:
        counts[t] = counts.get(t, 0) + 1
    best = None
    for t, c in counts.items():   # dict preserves first-appearance order
        if best is None or (c < best[1] if anti else c > best[1]):
            best = (t, c)
    return best[0] if best else None
