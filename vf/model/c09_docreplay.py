"""Doc-replay (DESIGN 2.9), minimal form used by C09 and C11: the GENMD blocks of
/repo/docs/src/*.md are recorded executions (command, stdout) of upstream Miller. Blocks whose
command is a plain `mlr ...` invocation (no shell operators) are re-run in a scratch directory that
holds copies of the files the command names, and stdout is compared byte for byte."""
import html
import os
import re
import shlex

DOCS = "/repo/docs/src"
_BLOCK = re.compile(r'<pre class="pre-highlight-in-pair">\n(.*?)</pre>\n<pre class="pre-non-highlight-in-pair">\n(.*?)</pre>', re.S)
_SHELL = {"|", ">", ">>", "<", ";", "&&", "||", "&", "2>&1"}


def blocks(page, section=None):
    """[(command text, expected stdout)] of one page, optionally only the '## section'."""
    path = os.path.join(DOCS, page)
    try:
        text = open(path, encoding="utf-8").read()
    except OSError:
        return []
    if section is not None:
        m = re.search(r"^## " + re.escape(section) + r"\n", text, re.M)
        if not m:
            return []
        rest = text[m.end():]
        n = re.search(r"^## ", rest, re.M)
        text = rest[:n.start()] if n else rest
    out = []
    for m in _BLOCK.finditer(text):
        lines = []
        for l in m.group(1).split("\n"):
            if l.startswith("<b>") and l.endswith("</b>"):
                lines.append(html.unescape(l[3:-4]))
        out.append(("\n".join(lines), html.unescape(m.group(2))))
    return out


def plan(cmd):
    """-> (argv without 'mlr', {relative file name: bytes}) or None if the block is not a plain,
    deterministic mlr command."""
    cmd = cmd.replace("\\\n", " ")      # shell line continuation
    try:
        toks = shlex.split(cmd, comments=False, posix=True)
    except ValueError:
        return None
    if not toks or toks[0] != "mlr":
        return None
    if any(t in _SHELL for t in toks):
        return None
    bad = ("--seed", "shuffle", "bootstrap", "sample", "urand", "systime", "hostname", "os.", "exec(", "system(",
           "tee", "split", "-I", "version", "help", "--usage", "case", "summary")
    for t in toks[1:]:
        if t in bad or any(b in t for b in ("urand", "systime", "hostname", "system(", "exec(")):
            return None
    files = {}
    for t in toks[1:]:
        if t.startswith("-") or "\n" in t or len(t) > 200:
            continue
        p = os.path.normpath(os.path.join(DOCS, t))
        if p.startswith(DOCS + "/") and os.path.isfile(p):
            with open(p, "rb") as f:
                files[t] = f.read()
    return toks[1:], files
