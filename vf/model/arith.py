"""Reference model for Miller's arithmetic on int64 / float64 operands (property C07).

Written from docs/src/reference-main-arithmetic.md, reference-dsl-operators.md and the
`mlr help function ...` texts, on Python big ints and Python floats (IEEE-754 doubles).
It shares nothing with pkg/bifs.  Where the documentation leaves a choice open the model
accepts every reading (a set of acceptable results); where the documentation says
nothing about the VALUE (int zero divisors of // % ./ roundm, modulus 0 and float operands of the
modular functions, shift counts outside 0..63, bit operators on floats) the expectation is only
"a number or an error value, and no crash"; where it says nothing about the value but the operation
has a float operand (float zero divisors, Inf/NaN through %) the TYPE is still required: a float or
an error value, never an int.  Negative moduli, roundm ties/overflow and NaN through min/max/sgn
have small explicit sets of acceptable results.
"""
import math
import struct

MIN = -(1 << 63)
MAX = (1 << 63) - 1
TWO63 = float(1 << 63)
# reference-main-arithmetic.md: "... whether the absolute value of the double-precision product
# exceeds the largest representable IEEE double less than 2**63, which ... is 9223372036854774784"
TIMES_THRESHOLD = 9223372036854774784.0

INF = float("inf")
NAN = float("nan")


def fits(r):
    return MIN <= r <= MAX


def wrap(r):
    return (r + (1 << 63)) % (1 << 64) - (1 << 63)


def bits(f):
    return struct.unpack(">Q", struct.pack(">d", f))[0]


def _ord(f):
    """Monotone integer image of a finite/infinite double, for ULP distances."""
    b = bits(f)
    return b if b < (1 << 63) else (1 << 63) - b


def ulp_distance(x, y):
    if x != x or y != y:
        return 0 if (x != x and y != y) else None
    return abs(_ord(x) - _ord(y))


def is_int(x):
    return isinstance(x, int)


def F(x):
    """int64 -> double, correctly rounded (round-half-even); float -> itself."""
    return float(x)


def cls(x):
    """Operand class used in violation signatures."""
    if x is None:
        return "-"
    if is_int(x):
        if x == 0:
            return "0"
        if x == 1:
            return "1"
        if x == -1:
            return "-1"
        if x == MIN:
            return "min"
        if x == MAX:
            return "max"
        return "pos" if x > 0 else "neg"
    if x != x:
        return "nan"
    if x == INF:
        return "+inf"
    if x == -INF:
        return "-inf"
    if x == 0:
        return "-0.0" if math.copysign(1, x) < 0 else "0.0"
    return "fpos" if x > 0 else "fneg"


class Exp:
    """Set of acceptable results."""
    __slots__ = ("ints", "floats", "ulps", "anynum", "anyzero", "note", "exact", "anyfloat", "err_ok")

    def __init__(self, ints=(), floats=(), ulps=0, anynum=False, note="", exact=None, anyzero=False,
                 anyfloat=False, err_ok=False):
        self.ints = set(ints)
        self.floats = list(floats)
        self.ulps = ulps
        self.anynum = anynum      # any int / float / error value: only "no crash" is required
        self.anyzero = anyzero    # sign of a *float* zero result is not specified (never forgives an int for a float)
        self.anyfloat = anyfloat  # value not documented, but a double operation: any float or an error value, never an int
        self.err_ok = err_ok      # an error value is acceptable besides the listed numbers
        self.note = note          # sub-class of the case, goes into the violation signature
        self.exact = exact        # exact mathematical result when it is an integer (to recognise wraps)

    def describe(self):
        if self.anynum:
            return "any number or error value (no crash)"
        if self.anyfloat:
            return "any float or an error value (a double operation: not an int, no crash)"
        parts = [f"int {v}" for v in sorted(self.ints)]
        parts += [f"float {x!r}" + (f" (+-{self.ulps} ulp)" if self.ulps else "") for x in self.floats]
        if self.err_ok:
            parts.append("an error value")
        return " or ".join(parts)


ANY = Exp(anynum=True, note="undocumented-domain")


def any_(note):
    return Exp(anynum=True, note=note)


def anyfloat_(note):
    """The documentation gives no value (zero float divisor, Inf/NaN through % ...), but the statement's
    "mixed int/float operations are IEEE-754 double operations" still fixes the TYPE: a float (or an
    error value), never an int."""
    return Exp(anyfloat=True, note=note)


# ------------------------------------------------------------------------------------------
# IEEE helpers (Python raises where IEEE returns Inf/NaN)

def ieee_div(x, y):
    try:
        return x / y
    except ZeroDivisionError:
        if x != x or x == 0:
            return NAN
        neg = (math.copysign(1, x) < 0) != (math.copysign(1, y) < 0)
        return -INF if neg else INF


def _is_odd_integer(y):
    return y == math.floor(y) and abs(y) < 2 ** 53 + 2 and int(y) % 2 == 1


def ieee_pow(x, y):
    """C99 / IEEE-754 pow() including the special cases for which Python raises."""
    try:
        return math.pow(x, y)
    except OverflowError:
        if x < 0 and _is_odd_integer(y):
            return -INF
        return INF
    except ValueError:
        if x == 0 and y < 0:
            if math.copysign(1, x) < 0 and _is_odd_integer(y):
                return -INF
            return INF
        return NAN


def ieee_floor(x):
    if x != x or x in (INF, -INF):
        return x
    return float(math.floor(x)) if x != 0 else x


def ieee_ceil(x):
    if x != x or x in (INF, -INF):
        return x
    r = float(math.ceil(x))
    if r == 0 and x < 0:
        return -0.0
    return r if x != 0 else x


def ieee_trunc(x):
    if x != x or x in (INF, -INF):
        return x
    r = float(math.trunc(x))
    if r == 0:
        return math.copysign(0.0, x)
    return r


def round_half_away(x):
    """Round to nearest integer, halves away from zero (C round(), Go math.Round)."""
    if x != x or x in (INF, -INF) or x == 0:
        return x
    t = float(math.trunc(x))
    if abs(x - t) >= 0.5:
        t += math.copysign(1.0, x)
    if t == 0:
        return math.copysign(0.0, x)
    return t


def finite(x):
    return x == x and x not in (INF, -INF)


def big_to_float(r):
    try:
        return float(r)
    except OverflowError:
        return INF if r > 0 else -INF


# ------------------------------------------------------------------------------------------
# binary operators

def _plusminus(op, a, b):
    if is_int(a) and is_int(b):
        r = a + b if op == "+" else a - b
        if fits(r):
            return Exp(ints=[r], exact=r)
        fa, fb = F(a), F(b)
        return Exp(floats=[fa + fb if op == "+" else fa - fb, big_to_float(r)], exact=r, note="overflow")
    fa, fb = F(a), F(b)
    return Exp(floats=[fa + fb if op == "+" else fa - fb], note="ieee")


def _times(a, b):
    if is_int(a) and is_int(b):
        r = a * b
        p = F(a) * F(b)
        e = Exp(exact=r)
        if fits(r):
            e.ints.add(r)
            if abs(p) > TIMES_THRESHOLD:
                # documented tolerance band: the double product is what Miller tests
                e.floats = [p, big_to_float(r)]
                e.note = "times-band"
        else:
            e.floats = [p, big_to_float(r)]
            e.note = "overflow" if abs(p) > TIMES_THRESHOLD else "overflow-below-double-threshold"
        return e
    return Exp(floats=[F(a) * F(b)], note="ieee")


def _divide(a, b):
    if is_int(a) and is_int(b):
        if b == 0:
            return Exp(floats=[ieee_div(F(a), 0.0)], note="int/0")
        if a % b == 0:
            q = a // b
            if fits(q):
                return Exp(ints=[q], exact=q, note="exact")
            return Exp(floats=[F(a) / F(b), big_to_float(q)], exact=q, note="overflow")
        return Exp(floats=[F(a) / F(b), a / b], note="inexact")
    return Exp(floats=[ieee_div(F(a), F(b))], note="ieee")


def _int_divide(a, b):
    if is_int(a) and is_int(b):
        if b == 0:
            return any_("zero-divisor")
        q = a // b
        if fits(q):
            return Exp(ints=[q], exact=q)
        return Exp(floats=[big_to_float(q), ieee_floor(F(a) / F(b))], exact=q, note="overflow")
    x, y = F(a), F(b)
    if y == 0:
        return anyfloat_("zero-divisor")
    if not (finite(x) and finite(y)):
        return Exp(floats=[ieee_floor(ieee_div(x, y))], note="ieee-nonfinite", anyzero=True)
    alts = [ieee_floor(x / y)]
    try:
        alts.append(x // y)
    except (ZeroDivisionError, OverflowError):
        pass
    return Exp(floats=alts, note="ieee", anyzero=True)


def _modulus(a, b):
    if is_int(a) and is_int(b):
        if b == 0:
            return any_("zero-divisor")
        r = a % b
        note = "int"
        if r == 0 and (a < 0) != (b < 0):
            note = "exact-multiple-signs-differ"     # 0 counts as non-negative
        elif b < 0:
            note = "negative-divisor"
        return Exp(ints=[r], exact=r, note=note)
    x, y = F(a), F(b)
    if y == 0:
        return anyfloat_("zero-divisor")
    if not (finite(x) and finite(y)):
        return anyfloat_("nonfinite-operand")
    alts = []
    q = x / y
    if not finite(q):
        return anyfloat_("quotient-overflow")    # neither documented formula is meaningful here
    alts.append(x - y * ieee_floor(q))
    try:
        alts.append(x % y)
    except (ZeroDivisionError, OverflowError):
        pass
    return Exp(floats=alts, note="ieee", anyzero=True, ulps=0)


POW_ULPS = 256
POW_ULPS_PER_UNIT = 1.25


def pow_ulps(y, x=None):
    """reference-dsl-operators.md documents the math functions as pass-throughs to the Go library, whose
    math.Pow (a) multiplies by repeated squaring for the integer part of y: the rounding error of the first
    squarings (<= 2^-53 relative each) is amplified by the remaining exponent, so the result is off by up to
    |y| * 2^-53 relative, i.e. between |y|/2 and |y| ulp in the worst case (measured here: up to ~0.65 |y| ulp);
    (b) computes exp(yf * log(x)) for the fractional part yf of y: the rounding of z = yf * log(x) alone is
    |z| * 2^-53 relative in the result, up to 2|z| ulp with log's own error (measured: 0.9 |z| ulp at |z| = 283).
    That inaccuracy is not Miller's: tolerance 256 + 1.25 |y| + 2 |yf ln|x|| ulp (|y| capped at 2^40).  Anything
    looser than the library's own worst case would let a wrong-but-close power through."""
    try:
        t = POW_ULPS + int(POW_ULPS_PER_UNIT * min(abs(y), 2.0 ** 40))
        if x is not None and not is_int(y) and finite(y) and finite(x) and x > 0 and y != math.floor(y):
            yf = abs(y) - math.floor(abs(y))
            t += int(2 * yf * abs(math.log(x))) + 1
        return t
    except (ValueError, OverflowError):
        return POW_ULPS


def _pow(a, b):
    if is_int(a) and is_int(b):
        if b >= 0:
            if a in (0, 1, -1):
                if b == 0:
                    r = 1
                elif a == -1:
                    r = 1 if b % 2 == 0 else -1
                else:
                    r = a
                return Exp(ints=[r], exact=r, note="int")
            if b <= 64:
                r = a ** b
                if fits(r):
                    return Exp(ints=[r], exact=r, note="int")
                return Exp(floats=[ieee_pow(F(a), F(b)), big_to_float(r)], ulps=POW_ULPS, exact=r, note="overflow")
            return Exp(floats=[ieee_pow(F(a), F(b))], ulps=pow_ulps(b), note="overflow")
        # negative exponent: a float; when the exact value is an integer (|a| = 1) the int is fine too
        e = Exp(floats=[ieee_pow(F(a), F(b))], ulps=pow_ulps(b), note="negative-exponent")
        if a in (1, -1):
            e.ints.add(1 if (a == 1 or b % 2 == 0) else -1)
        return e
    x, y = F(a), F(b)
    r = ieee_pow(x, y)
    if any(v != 0 and abs(v) < 2.2250738585072014e-308 for v in (x, y, r)):
        # reference-dsl-operators.md: functions are "pass-throughs straight to the system-standard Go
        # libraries"; Go's math.Pow is far off C pow() on subnormals: no verdict there
        return any_("subnormal")
    return Exp(floats=[r], ulps=pow_ulps(y, x), note="ieee")


def _dot(op, a, b):
    if is_int(a) and is_int(b):
        if op == ".+":
            r = a + b
        elif op == ".-":
            r = a - b
        elif op == ".*":
            r = a * b
        else:
            if b == 0:
                return any_("zero-divisor")
            r = abs(a) // abs(b)
            if (a < 0) != (b < 0):
                r = -r
        return Exp(ints=[wrap(r)], exact=r, note="wraps" if not fits(r) else "int")
    x, y = F(a), F(b)
    if op == ".+":
        return Exp(floats=[x + y], note="ieee")
    if op == ".-":
        return Exp(floats=[x - y], note="ieee")
    if op == ".*":
        return Exp(floats=[x * y], note="ieee")
    q = ieee_div(x, y)
    # "Integer division, rounding toward zero": with a float operand the docs do not say whether
    # the quotient is truncated; both readings are accepted
    return Exp(floats=[q, ieee_trunc(q)], note="ieee", anyzero=True)


def _bitop(op, a, b):
    if not (is_int(a) and is_int(b)):
        return any_("float-operand")
    if op == "&":
        r = a & b
    elif op == "|":
        r = a | b
    else:
        r = a ^ b
    return Exp(ints=[r], exact=r)


def _shift(op, a, b):
    if not (is_int(a) and is_int(b)):
        return any_("float-operand")
    if b < 0 or b > 63:
        return any_("shift-count-outside-0..63")
    if op == "<<":
        r = wrap(a << b)
    elif op == ">>":
        r = a >> b
    else:
        r = wrap((a % (1 << 64)) >> b)
    return Exp(ints=[r], exact=r)


def _minmax(op, a, b):
    """int,int -> the int (documented int-preserving).  With a float operand the operation is a double
    operation (statement), so the float of the winner is always acceptable; the winner itself is accepted
    as an int only when the winning OPERAND is an int ("min of n numbers" returning its argument).  An
    integral float winner is never an int.  A NaN operand: NaN, or the other operand (either reading of
    "number wins"), as float or in its own type; never some other number."""
    if is_int(a) and is_int(b):
        r = min(a, b) if op == "min" else max(a, b)
        return Exp(ints=[r], exact=r, note="int")
    an = (not is_int(a)) and a != a
    bn = (not is_int(b)) and b != b
    if an or bn:
        e = Exp(note="nan-operand", err_ok=True)
        e.floats.append(NAN)
        for x, isn in ((a, an), (b, bn)):
            if not isn:
                e.floats.append(F(x))
                if is_int(x):
                    e.ints.add(x)
        return e
    w = (min if op == "min" else max)(a, b)        # Python compares int with float exactly
    cands = [w]
    if F(a) == F(b):                                # equal as doubles: either operand is a fair answer
        cands = [a, b]
    e = Exp(note="mixed" if is_int(a) != is_int(b) else "ieee", anyzero=True)
    for x in cands:
        e.floats.append(F(x))
        if is_int(x):
            e.ints.add(x)
    return e


def _roundm(a, m):
    if is_int(a) and is_int(m):
        if m == 0:
            return any_("zero-divisor")
        # help text: "roundm($x,$m) is the same as round($x/$m)*$m"; round() is to the nearest integer and
        # (as for the float case, C round()/Go math.Round) halves go away from zero.  On ints the quotient
        # is taken exactly (int-preserving function): q = a/m as a rational.
        n, d = (a, m) if m > 0 else (-a, -m)         # q = n/d, d > 0
        k, r = divmod(abs(n), d)
        tie = (2 * r == d)
        if 2 * r >= d:
            k += 1
        if n < 0:
            k = -k
        res = k * m
        note = "int-tie" if tie else "int"
        if abs(a) > (1 << 53) or abs(m) > (1 << 53):
            note += "-beyond-2^53"
        if not fits(res):
            # the nearest multiple does not exist in int64: a float near it, or an error value; never a
            # wrapped or unrelated int
            return Exp(floats=[big_to_float(res)], ulps=4, err_ok=True, exact=res, note="overflow")
        return Exp(ints=[res], note=note)
    x, y = F(a), F(m)
    if y == 0 or not (finite(x) and finite(y)):
        return anyfloat_("zero-or-nonfinite")
    q = x / y
    if not finite(q):
        return anyfloat_("overflow")
    # help text: roundm($x,$m) is the same as round($x/$m)*$m
    return Exp(floats=[round_half_away(q) * y], note="ieee", anyzero=True, ulps=1)


# ------------------------------------------------------------------------------------------
# unary

def _unary(op, a):
    if is_int(a):
        if op == "neg":
            r = -a
            if fits(r):
                return Exp(ints=[r], exact=r)
            return Exp(floats=[TWO63], exact=r, note="overflow")
        if op == "pos":
            return Exp(ints=[a], exact=a)
        if op == "~":
            return Exp(ints=[~a], exact=~a)
        if op == "abs":
            r = abs(a)
            if fits(r):
                return Exp(ints=[r], exact=r)
            # -2^63: int-preserving (documented "produce integer output if their inputs are
            # integers") or the float magnitude: both accepted
            return Exp(ints=[MIN], floats=[TWO63], note="abs-min")
        if op in ("ceil", "floor", "round"):
            return Exp(ints=[a], exact=a)
        if op == "sgn":
            r = (a > 0) - (a < 0)
            return Exp(ints=[r], exact=r)
        raise KeyError(op)
    x = a
    if op == "neg":
        return Exp(floats=[-x], note="ieee")
    if op == "pos":
        return Exp(floats=[x], note="ieee")
    if op == "~":
        return any_("float-operand")
    if op == "abs":
        return Exp(floats=[abs(x)], note="ieee")
    if op == "ceil":
        return Exp(floats=[ieee_ceil(x)], note="ieee", anyzero=True)
    if op == "floor":
        return Exp(floats=[ieee_floor(x)], note="ieee", anyzero=True)
    if op == "round":
        return Exp(floats=[round_half_away(x)], note="ieee", anyzero=True)
    if op == "sgn":
        if x != x:
            # "+1, 0, -1 for positive, zero, negative": NaN is none of them; NaN (IEEE) or 0 or an error
            return Exp(floats=[NAN, 0.0], note="nan-operand", anyzero=True, err_ok=True)
        return Exp(floats=[float((x > 0) - (x < 0))], note="ieee", anyzero=True)
    raise KeyError(op)


# ------------------------------------------------------------------------------------------
# ternary modular functions

def _modular(op, a, b, m):
    """help: "a + b mod m (integers)".  m > 0: the exact residue in 0..m-1.  m < 0 is not spelled out:
    both sign conventions are accepted - the residue with the sign of the modulus (the "pythonic"
    convention the docs use for %) and the residue modulo |m| - and so is an error value; any other
    number is not a residue of the exact result at all.  m = 0 and float operands: docs silent."""
    if not (is_int(a) and is_int(b) and is_int(m)):
        return any_("float-operand")
    if m == 0:
        return any_("modulus=0")
    # the note says which hazard the case carries (the expectation is the same: exact arithmetic)
    if op == "madd":
        x = a + b
        note = "small" if fits(x) else "intermediate-beyond-int64"
    elif op == "msub":
        x = a - b
        note = "small" if fits(x) else "intermediate-beyond-int64"
    elif op == "mmul":
        x = a * b
        note = "small" if fits(x) else "intermediate-beyond-int64"
    else:
        if b < 0:
            # a ** b mod m with b < 0 is a modular inverse power where one exists; docs silent: that value
            # (either sign convention) or an error value
            e = Exp(err_ok=True, note="negative-exponent")
            try:
                r = pow(a, b, abs(m))
                e.ints.update(x for x in (r, r % m) if fits(x))
            except ValueError:
                pass
            return e
        x = None
        if b <= 1:
            note = "exponent-0-or-1"
        elif max(abs(a), abs(m)) > 3037000499:
            note = "intermediate-beyond-int64"       # a residue squared may exceed 2^63-1
        else:
            note = "small"
    if m > 0:
        r = x % m if x is not None else pow(a, b, m)
        return Exp(ints=[r], exact=r, note=note)
    um = -m
    r = x % um if x is not None else pow(a, b, um)          # 0 .. |m|-1
    rs = r % m                                               # sign of the modulus
    e = Exp(ints=[v for v in (r, rs) if fits(v)], err_ok=True, note="negative-modulus:" + note)
    return e


BINARY = ["+", "-", "*", "/", "//", "%", "**", "pow", ".+", ".-", ".*", "./", "&", "|", "^",
          "<<", ">>", ">>>", "min", "max", "roundm"]
UNARY = ["neg", "pos", "~", "abs", "ceil", "floor", "round", "sgn"]
TERNARY = ["madd", "msub", "mmul", "mexp"]


def expect(op, a, b=None, c=None):
    if op in ("+", "-"):
        return _plusminus(op, a, b)
    if op == "*":
        return _times(a, b)
    if op == "/":
        return _divide(a, b)
    if op == "//":
        return _int_divide(a, b)
    if op == "%":
        return _modulus(a, b)
    if op in ("**", "pow"):
        return _pow(a, b)
    if op in (".+", ".-", ".*", "./"):
        return _dot(op, a, b)
    if op in ("&", "|", "^"):
        return _bitop(op, a, b)
    if op in ("<<", ">>", ">>>"):
        return _shift(op, a, b)
    if op in ("min", "max"):
        return _minmax(op, a, b)
    if op == "roundm":
        return _roundm(a, b)
    if op in UNARY:
        return _unary(op, a)
    if op in TERNARY:
        return _modular(op, a, b, c)
    raise KeyError(op)


def judge(e, got):
    """got = ("int", v) | ("float", x) | ("error",) | (other type name,).
    Returns None when acceptable, else (kind, text)."""
    t = got[0]
    if e.anynum:
        if t in ("int", "float", "error"):
            return None
        return ("not-a-number-or-error", f"result is of type {t}")
    if e.anyfloat:
        if t in ("float", "error"):
            return None
        if t == "int":
            return ("int-for-float", f"got int {got[1]} from an operation with a float operand")
        return ("not-a-number-or-error", f"result is of type {t}")
    if t == "int":
        v = got[1]
        if v in e.ints:
            return None
        if not e.ints and e.floats:
            if e.exact is not None and not fits(e.exact) and v == wrap(e.exact):
                return ("wrapped-int", f"exact result {e.exact} does not fit in int64; got the wrapped int {v}")
            return ("int-for-float", f"got int {v}")
        if any(bits(float(v)) == bits(y) for y in e.floats if finite(y)) or (
                e.anyzero and v == 0 and any(y == 0 for y in e.floats)):
            return ("int-for-float", f"got int {v} where the winning operand / the operation is a float")
        return ("value", f"got int {v}")
    if t == "float":
        x = got[1]
        for y in e.floats:
            if bits(x) == bits(y) or (x != x and y != y):
                return None
            if e.anyzero and x == 0 and y == 0:
                return None
            if e.ulps:
                d = ulp_distance(x, y)
                if d is not None and d <= e.ulps:
                    return None
        if e.ints and not e.floats:
            return ("float-for-int", f"got float {x!r}")
        return ("value", f"got float {x!r}")
    if t == "error":
        if e.err_ok:
            return None
        return ("error-value", "got an error value where the documentation defines a number")
    return ("not-a-number-or-error", f"result is of type {t}")
