"""Independent readers and writers for the text formats Miller speaks, written from the
specifications (RFC 4180, the IANA TSV registration + Miller's documented \\t \\n \\r \\\\
escapes, RFC 8259) and from Miller's *documentation* (file-formats.md, reference-main-
separators.md, record-heterogeneity.md) for the line formats -- never from Miller's Go code.
Used by C01 (standard-dialect cross-check, byte-exact injection), C02 and C20 (strict
single-document readers: "is this file one well-formed document of format F?").

Conventions
  * everything is bytes on the outside (formats are byte streams; TSV/CSV/DKVP/NIDX are
    byte-transparent), a *row* is a list of bytes cells, a *record* is a list of
    (key-bytes, value-bytes) pairs in order (duplicates kept, nothing deduped);
  * JSON values: str, JNum (the number token, text kept), True/False/None, JObj (a list of
    (key-str, value) pairs -- order and duplicates kept) and plain list for arrays;
  * every reader raises CodecError on text that is not a well-formed document of the format
    (readers are strict: they decline rather than guess).

Simple API (the part other checks import):
  parse_csv(data, fs=b",") -> rows          write_csv(rows, style=None) -> bytes
  parse_tsv(data) -> rows                   write_tsv(rows, style=None) -> bytes
  parse_json_records(data) -> records (JObj per record; any of: one array of objects,
                                       concatenated objects, JSON Lines)
  read_document(fmt, data, **opts) -> records   strict single-document reader, fmt in
       csv tsv csvlite tsvlite json jsonl dkvp nidx xtab pprint markdown
  rows_to_records(rows) / records_to_rows(records)
"""
import csv as _pycsv
import io
import json
import re

BOM = b"\xef\xbb\xbf"


class CodecError(ValueError):
    pass


# ==========================================================================================
# CSV (RFC 4180; LF accepted as a line break as well as CRLF, as every real reader does)

def parse_csv(data, fs=b",", strict=True, keep_blank=True):
    """RFC-4180 tokenizer -> list of rows (lists of bytes cells).
    strict: a quote inside an unquoted field, text after a closing quote, an unterminated
    quoted field or a bare CR outside quotes raise CodecError (such text is not RFC 4180).
    A completely empty line is returned as the row [b""] (one empty field) when keep_blank,
    else dropped. A leading BOM is NOT interpreted here (callers strip it)."""
    if isinstance(data, str):
        data = data.encode("utf-8", "surrogateescape")
    if not fs:
        raise CodecError("empty field separator")
    rows = []
    row = []
    i = 0
    n = len(data)
    lfs = len(fs)
    DQ = 0x22
    at_field_start = True
    while i < n:
        # ---- one field
        if data[i] == DQ:
            i += 1
            buf = bytearray()
            while True:
                j = data.find(b'"', i)
                if j < 0:
                    raise CodecError("unterminated quoted field")
                buf += data[i:j]
                if j + 1 < n and data[j + 1] == DQ:
                    buf.append(DQ)
                    i = j + 2
                    continue
                i = j + 1
                break
            field = bytes(buf)
            quoted = True
        else:
            j = i
            while j < n:
                c = data[j]
                if c == 0x0A:
                    break
                if c == 0x0D and (strict or (j + 1 < n and data[j + 1] == 0x0A)):
                    break
                if data.startswith(fs, j):
                    break
                if c == DQ and strict:
                    raise CodecError("quote inside an unquoted field at byte %d" % j)
                j += 1
            field = data[i:j]
            i = j
            quoted = False
        # ---- what follows the field
        if i >= n:
            row.append(field)
            rows.append(row)
            row = None
            break
        if data.startswith(fs, i):
            row.append(field)
            i += lfs
            if i >= n:
                # separator then end of data: one last empty field
                row.append(b"")
                rows.append(row)
                row = None
            continue
        c = data[i]
        if c == 0x0D:
            if i + 1 < n and data[i + 1] == 0x0A:
                i += 2
            elif quoted:
                raise CodecError("text after closing quote at byte %d" % i)
            else:
                raise CodecError("bare CR outside quotes at byte %d" % i)
        elif c == 0x0A:
            i += 1
        else:
            raise CodecError("text after closing quote at byte %d" % i)
        row.append(field)
        rows.append(row)
        row = []
    if row:
        rows.append(row)
    if not keep_blank:
        rows = [r for r in rows if r != [b""]]
    return rows


def parse_csv_py(data, fs=b","):
    """Second, unrelated reader: Python's csv module (dialect excel, strict), byte-transparent
    via latin-1. Only meaningful for single-byte fs."""
    if len(fs) != 1:
        raise CodecError("python csv needs a single-byte delimiter")
    text = data.decode("latin-1")
    rd = _pycsv.reader(io.StringIO(text, newline=""), delimiter=fs.decode("latin-1"),
                       quotechar='"', doublequote=True, strict=True)
    try:
        return [[c.encode("latin-1") for c in row] if row else [b""] for row in rd]
    except _pycsv.Error as e:
        raise CodecError("python csv: %s" % e)


def csv_needs_quote(cell, fs=b","):
    return (fs in cell) or (b'"' in cell) or (b"\r" in cell) or (b"\n" in cell)


def csv_quote(cell):
    return b'"' + cell.replace(b'"', b'""') + b'"'


def write_csv(rows, style=None):
    """Hand-written RFC-4180 writer. style keys (all optional):
      quote: "minimal" (only cells containing fs, quote, CR or LF), "all", or "random"
             (minimal + a random subset of the others; needs style["rng"])
      eol: b"\\n" | b"\\r\\n";  final_eol: bool;  bom: bool;  fs: bytes
      quote_empty_sole: quote a row's only cell when it is empty (so the line is not blank)"""
    st = {"quote": "minimal", "eol": b"\n", "final_eol": True, "bom": False, "fs": b",",
          "quote_empty_sole": True, "rng": None}
    st.update(style or {})
    fs = st["fs"]
    lines = []
    for row in rows:
        cells = []
        for c in row:
            if st["quote"] == "all":
                q = True
            elif csv_needs_quote(c, fs):
                q = True
            elif st["quote"] == "random":
                q = st["rng"].random() < 0.4
            else:
                q = False
            if len(row) == 1 and c == b"" and st["quote_empty_sole"]:
                q = True
            cells.append(csv_quote(c) if q else c)
        lines.append(fs.join(cells))
    out = st["eol"].join(lines)
    if lines and st["final_eol"]:
        out += st["eol"]
    if st["bom"]:
        out = BOM + out
    return out


def write_csv_py_quote_all(rows, eol=b"\n", fs=b","):
    """Python's own csv.writer, QUOTE_ALL only (its QUOTE_MINIMAL leaves a trailing bare CR
    unquoted, which is not unambiguous RFC-4180 text)."""
    buf = io.StringIO(newline="")
    w = _pycsv.writer(buf, delimiter=fs.decode("latin-1"), quoting=_pycsv.QUOTE_ALL,
                      lineterminator=eol.decode("latin-1"))
    for r in rows:
        w.writerow([c.decode("latin-1") for c in r])
    return buf.getvalue().encode("latin-1")


# ==========================================================================================
# TSV (IANA text/tab-separated-values + the four escapes Miller documents)

_TSV_ENC = {0x09: b"\\t", 0x0A: b"\\n", 0x0D: b"\\r", 0x5C: b"\\\\"}


def tsv_encode(cell):
    out = bytearray()
    for b in cell:
        e = _TSV_ENC.get(b)
        if e is None:
            out.append(b)
        else:
            out += e
    return bytes(out)


def tsv_encode_lazy(cell):
    """Legal alternative spelling: a backslash that cannot be mistaken for one of the four
    escapes (not followed by t n r or backslash) is left as it is."""
    out = bytearray()
    n = len(cell)
    for i, b in enumerate(cell):
        if b == 0x5C:
            nxt = cell[i + 1] if i + 1 < n else None
            if nxt in (0x74, 0x6E, 0x72, 0x5C, 0x09, 0x0A, 0x0D):   # (the last three are themselves written as backslash escapes)
                out += b"\\\\"
            else:
                out.append(b)
        else:
            e = _TSV_ENC.get(b)
            if e is None:
                out.append(b)
            else:
                out += e
    return bytes(out)


def tsv_decode(cell):
    out = bytearray()
    i = 0
    n = len(cell)
    while i < n:
        b = cell[i]
        if b == 0x5C and i + 1 < n:
            c = cell[i + 1]
            if c == 0x74:
                out.append(0x09); i += 2; continue
            if c == 0x6E:
                out.append(0x0A); i += 2; continue
            if c == 0x72:
                out.append(0x0D); i += 2; continue
            if c == 0x5C:
                out.append(0x5C); i += 2; continue
        out.append(b)
        i += 1
    return bytes(out)


def split_lines(data, eol=None):
    """Lines of a text document. eol None = LF or CRLF (a CR directly before LF belongs to the
    terminator). The final line may lack its terminator. Returns list of bytes lines."""
    if data == b"":
        return []
    if eol is None:
        parts = data.split(b"\n")
        if parts[-1] == b"":
            parts.pop()
        return [p[:-1] if p.endswith(b"\r") else p for p in parts]
    parts = data.split(eol)
    if parts[-1] == b"":
        parts.pop()
    return parts


def parse_tsv(data, decode=True, eol=None):
    rows = []
    for line in split_lines(data, eol):
        cells = line.split(b"\t")
        rows.append([tsv_decode(c) for c in cells] if decode else cells)
    return rows


def write_tsv(rows, style=None):
    st = {"eol": b"\n", "final_eol": True, "lazy_backslash": False, "bom": False}
    st.update(style or {})
    enc = tsv_encode_lazy if st["lazy_backslash"] else tsv_encode
    lines = [b"\t".join(enc(c) for c in row) for row in rows]
    out = st["eol"].join(lines)
    if lines and st["final_eol"]:
        out += st["eol"]
    if st["bom"]:
        out = BOM + out
    return out


# ==========================================================================================
# rows <-> records

def rows_to_records(rows, implicit_header=False):
    """First row = keys (unless implicit_header: keys 1..n). Strict: every data row must have
    exactly as many cells as the header."""
    if not rows:
        return []
    if implicit_header:
        return [[(str(i + 1).encode(), c) for i, c in enumerate(r)] for r in rows]
    hdr = rows[0]
    out = []
    for r in rows[1:]:
        if len(r) != len(hdr):
            raise CodecError("data row has %d cells, header has %d" % (len(r), len(hdr)))
        out.append(list(zip(hdr, r)))
    return out


def records_to_rows(records, header=True):
    """Homogeneous records -> header row + data rows (CodecError if keys differ)."""
    if not records:
        return []
    keys = [k for k, _ in records[0]]
    rows = [list(keys)] if header else []
    for r in records:
        if [k for k, _ in r] != keys:
            raise CodecError("heterogeneous records")
        rows.append([v for _, v in r])
    return rows


def records_to_blocks(records):
    """Schema-change blocks: consecutive records with the same key list."""
    blocks = []
    for r in records:
        keys = [k for k, _ in r]
        if blocks and blocks[-1][0] == keys:
            blocks[-1][1].append([v for _, v in r])
        else:
            blocks.append((keys, [[v for _, v in r]]))
    return blocks


# ==========================================================================================
# JSON (RFC 8259, strict)

class JNum(str):
    """A JSON number token; compared by its text."""
    __slots__ = ()

    def __repr__(self):
        return "JNum(%s)" % str.__repr__(self)


class JObj(list):
    """A JSON object as an ordered list of (key, value) pairs (duplicates kept)."""
    __slots__ = ()

    def __repr__(self):
        return "JObj(%s)" % list.__repr__(self)


def _no_const(name):
    raise CodecError("non-RFC-8259 constant %s" % name)


_JDEC = json.JSONDecoder(object_pairs_hook=JObj, parse_int=JNum, parse_float=JNum,
                         parse_constant=_no_const, strict=True)
_JWS = " \t\r\n"


def _jtext(data):
    if isinstance(data, bytes):
        try:
            return data.decode("utf-8")
        except UnicodeDecodeError as e:
            raise CodecError("JSON text is not valid UTF-8: %s" % e)
    return data


def parse_json_values(data):
    """All top-level JSON values of a text (concatenated, whitespace- or comma-free)."""
    text = _jtext(data)
    out = []
    i = 0
    n = len(text)
    while True:
        while i < n and text[i] in _JWS:
            i += 1
        if i >= n:
            break
        try:
            v, i = _JDEC.raw_decode(text, i)
        except (json.JSONDecodeError, RecursionError) as e:
            raise CodecError("JSON: %s" % e)
        out.append(v)
    return out


def parse_json_records(data):
    """Tabular JSON in any of its shapes (one array of objects; objects one after another;
    JSON Lines) -> list of JObj. Anything else -> CodecError."""
    out = []
    for v in parse_json_values(data):
        if isinstance(v, JObj):
            out.append(v)
        elif isinstance(v, list) and not isinstance(v, JObj):
            for e in v:
                if not isinstance(e, JObj):
                    raise CodecError("array element is not an object")
                out.append(e)
        else:
            raise CodecError("top-level JSON scalar")
    return out


def read_json_document(data):
    """Strict: exactly one top-level value, which is an array of objects (what --ojson
    promises with list wrap), or nothing but whitespace (no records)."""
    vs = parse_json_values(data)
    if not vs:
        return []
    if len(vs) != 1 or isinstance(vs[0], JObj) or not isinstance(vs[0], list):
        raise CodecError("not a single JSON array document (%d top-level values)" % len(vs))
    for e in vs[0]:
        if not isinstance(e, JObj):
            raise CodecError("array element is not an object")
    return list(vs[0])


def read_jsonl_document(data):
    """Strict JSON Lines: every line is exactly one object."""
    text = _jtext(data)
    out = []
    if text == "":
        return out
    if not text.endswith("\n"):
        raise CodecError("JSON Lines: last line not terminated")
    for line in text[:-1].split("\n"):
        vs = parse_json_values(line)
        if len(vs) != 1 or not isinstance(vs[0], JObj):
            raise CodecError("JSON Lines: line is not exactly one object")
        out.append(vs[0])
    return out


_JESC = {'"': '\\"', "\\": "\\\\", "\n": "\\n", "\r": "\\r", "\t": "\\t", "\b": "\\b", "\f": "\\f"}


def json_string(s, ascii_only=False, esc_solidus=False, u_escape_all=False):
    out = ['"']
    for ch in s:
        o = ord(ch)
        if u_escape_all:
            if o >= 0x10000:
                o -= 0x10000
                out.append("\\u%04x\\u%04x" % (0xD800 + (o >> 10), 0xDC00 + (o & 0x3FF)))
            else:
                out.append("\\u%04X" % o)
        elif ch in _JESC:
            out.append(_JESC[ch])
        elif ch == "/" and esc_solidus:
            out.append("\\/")
        elif o < 0x20:
            out.append("\\u%04x" % o)
        elif o >= 0x7F and ascii_only:
            if o >= 0x10000:
                o -= 0x10000
                out.append("\\ud%03x\\ud%03x" % (0x800 + (o >> 10), 0xC00 + (o & 0x3FF)))
            else:
                out.append("\\u%04x" % o)
        else:
            out.append(ch)
    out.append('"')
    return "".join(out)


def json_value(v, st, depth=0):
    """Serialise a JSON value (str / JNum / bool / None / JObj / list) in style st."""
    if isinstance(v, JNum):
        return str(v)
    if isinstance(v, str):
        return json_string(v, st.get("ascii_only"), st.get("esc_solidus"), st.get("u_escape_all"))
    if v is True:
        return "true"
    if v is False:
        return "false"
    if v is None:
        return "null"
    ind = st.get("indent")
    nl = st.get("nl", "\n")
    if isinstance(v, JObj):
        if not v:
            return "{}" if not st.get("space_empty") else "{ }"
        items = [json_string(k, st.get("ascii_only"), st.get("esc_solidus"), st.get("u_escape_all")) +
                 st.get("colon", ": ") + json_value(x, st, depth + 1) for k, x in v]
        if ind is None:
            return "{" + st.get("comma", ", ").join(items) + "}"
        pad = " " * (ind * (depth + 1))
        return "{" + nl + ("," + nl).join(pad + it for it in items) + nl + " " * (ind * depth) + "}"
    if isinstance(v, list):
        if not v:
            return "[]" if not st.get("space_empty") else "[ ]"
        items = [json_value(x, st, depth + 1) for x in v]
        if ind is None:
            return "[" + st.get("comma", ", ").join(items) + "]"
        pad = " " * (ind * (depth + 1))
        return "[" + nl + ("," + nl).join(pad + it for it in items) + nl + " " * (ind * depth) + "]"
    raise CodecError("not a JSON value: %r" % (v,))


def write_json(records, style=None):
    """records: list of JObj. style: shape = "array" | "concat" | "lines"; indent None|int;
    ascii_only, esc_solidus, u_escape_all, colon, comma, nl, final_eol."""
    st = {"shape": "array", "indent": None, "final_eol": True, "nl": "\n"}
    st.update(style or {})
    nl = st["nl"]
    objs = [json_value(r, st, 0) for r in records]
    if st["shape"] == "array":
        if not objs:
            text = "[" + nl + "]"
        else:
            text = "[" + nl + ("," + nl).join(objs) + nl + "]"
    elif st["shape"] == "lines":
        text = nl.join(objs)
    else:
        text = (nl if st.get("concat_nl", True) else " ").join(objs)
    if st["final_eol"] and text:
        text += nl
    return text.encode("utf-8")


def jobj_from_record(rec, errors="strict"):
    """(key-bytes, value-bytes) record -> JObj of strings."""
    return JObj((k.decode("utf-8", errors), v.decode("utf-8", errors)) for k, v in rec)


def record_from_jobj(obj):
    """Flat JObj whose values are strings / numbers / true / false / null -> byte record;
    CodecError when a value is a collection."""
    out = []
    for k, v in obj:
        if isinstance(v, JNum) or isinstance(v, str):
            t = str(v)
        elif v is True:
            t = "true"
        elif v is False:
            t = "false"
        elif v is None:
            # Miller prints an absent-valued/empty JSON null as empty; callers that care use strings
            t = ""
        else:
            raise CodecError("collection-valued field %r" % k)
        out.append((k.encode("utf-8", "surrogateescape"), t.encode("utf-8", "surrogateescape")))
    return out


# ==========================================================================================
# line formats, from the documentation

def write_dkvp(records, fs=b",", ps=b"=", rs=b"\n"):
    return b"".join(fs.join(k + ps + v for k, v in r) + rs for r in records)


def read_dkvp_document(data, fs=b",", ps=b"=", rs=None):
    """file-formats.md: fields are IFS-separated key IPS value pairs; a field lacking IPS gets
    its 1-up position as key. An empty line is not a record."""
    out = []
    for line in split_lines(data, rs):
        if line == b"":
            continue
        rec = []
        for pos, pair in enumerate(line.split(fs)):
            if ps in pair:
                k, v = pair.split(ps, 1)
            else:
                k, v = str(pos + 1).encode(), pair
            rec.append((k, v))
        out.append(rec)
    return out


def write_nidx(records, fs=b" ", rs=b"\n"):
    return b"".join(fs.join(v for _, v in r) + rs for r in records)


def read_nidx_document(data, fs=b" ", rs=None, repifs=True):
    out = []
    for line in split_lines(data, rs):
        if repifs:
            cells = [c for c in line.split(fs) if c != b""]
        else:
            cells = line.split(fs)
        if not cells or line == b"":
            continue
        out.append([(str(i + 1).encode(), c) for i, c in enumerate(cells)])
    return out


def write_xtab(records, ps=b" ", fs=b"\n", align=True):
    """One 'key value' line per field, keys padded to a common width (per record) with
    repeated PS when PS is one character; records separated by an empty line."""
    blocks = []
    for r in records:
        w = max((_ulen(k) for k, _ in r), default=0)
        lines = []
        for k, v in r:
            if align and len(ps) == 1:
                lines.append(k + ps * (w - _ulen(k) + 1) + v)
            else:
                lines.append(k + ps + v)
        blocks.append(fs.join(lines) + fs)
    return fs.join(blocks)


def read_xtab_document(data, ps=b" ", repips=True):
    """Records are runs of non-empty lines; each line is key, one or more PS, value
    (the value is everything after the PS run; a line without PS is a key with empty value)."""
    out = []
    cur = []
    for line in split_lines(data):
        if line == b"":
            if cur:
                out.append(cur)
                cur = []
            continue
        i = line.find(ps)
        if i < 0:
            cur.append((line, b""))
            continue
        k = line[:i]
        j = i + len(ps)
        if repips:
            while line.startswith(ps, j):
                j += len(ps)
        cur.append((k, line[j:]))
    if cur:
        out.append(cur)
    return out


def _ulen(b):
    """Display length the way a UTF-8-aware padder counts it: code points (invalid bytes
    count one each)."""
    return len(b.decode("utf-8", "replace"))


def write_pprint(records, barred=False, right=False):
    """Blocks of same-key records: header line + data lines, columns padded with spaces to
    the widest cell; empty cells shown as '-'; blocks separated by an empty line."""
    out = []
    for keys, rows in records_to_blocks(records):
        table = [list(keys)] + rows
        table = [[(c if c != b"" else b"-") for c in row] for row in table]
        widths = [max(_ulen(row[j]) for row in table) for j in range(len(keys))]
        lines = []
        for row in table:
            cells = []
            for j, c in enumerate(row):
                pad = b" " * (widths[j] - _ulen(c))
                cells.append(pad + c if right else c + pad)
            if barred:
                lines.append(b"| " + b" | ".join(cells) + b" |")
            else:
                lines.append(b" ".join(cells).rstrip(b" ") if not right else b" ".join(cells))
        if barred:
            bar = b"+" + b"+".join(b"-" * (w + 2) for w in widths) + b"+"
            lines = [bar, lines[0], bar] + lines[1:] + [bar]
        out.append(b"\n".join(lines) + b"\n")
    return b"\n".join(out)


def read_pprint_document(data, barred=False):
    """Space-aligned table(s): blocks separated by empty lines, first line of a block is the
    header, cells are runs of non-space; '-' alone is the empty cell. Barred: lines starting
    with '+' are borders, data lines are '| a | b |'."""
    out = []
    hdr = None
    for line in split_lines(data):
        if line.strip(b" ") == b"":
            hdr = None
            continue
        if barred:
            if line.startswith(b"+"):
                continue
            if not (line.startswith(b"|") and line.rstrip(b" ").endswith(b"|")):
                raise CodecError("barred pprint: line without bars")
            inner = line.rstrip(b" ")[2:-2]
            cells = [c.strip(b" ") for c in inner.split(b" | ")]
        else:
            cells = [c for c in line.split(b" ") if c != b""]
        if hdr is None:
            hdr = cells
            continue
        if len(cells) != len(hdr):
            raise CodecError("pprint: %d cells under a %d-column header" % (len(cells), len(hdr)))
        out.append([(k, (b"" if v == b"-" else v)) for k, v in zip(hdr, cells)])
    return out


def write_markdown(records):
    out = []
    for keys, rows in records_to_blocks(records):
        lines = [b"| " + b" | ".join(keys) + b" |", b"| " + b" | ".join(b"---" for _ in keys) + b" |"]
        for r in rows:
            lines.append(b"| " + b" | ".join(c.replace(b"|", b"\\|") for c in r) + b" |")
        out.append(b"\n".join(lines) + b"\n")
    return b"\n".join(out)     # a new table (schema change) is separated by an empty line


_MD_SPLIT = re.compile(rb"(?<!\\)\|")


def read_markdown_document(data):
    """GitHub-style table(s): '| a | b |' header, '| --- | --- |' rule, data lines; a cell's
    literal pipe is written '\\|'. A new header+rule starts a new block."""
    out = []
    hdr = None
    lines = split_lines(data)
    i = 0

    def cells_of(line):
        s = line.strip(b" ")
        if not (s.startswith(b"|") and s.endswith(b"|") and len(s) >= 2):
            raise CodecError("markdown: line without outer pipes")
        parts = _MD_SPLIT.split(s[1:-1])
        return [p.strip(b" ").replace(b"\\|", b"|") for p in parts]

    def is_rule(line):
        try:
            cs = cells_of(line)
        except CodecError:
            return False
        return bool(cs) and all(re.fullmatch(rb":?-{3,}:?", c) for c in cs)

    while i < len(lines):
        line = lines[i]
        if line.strip(b" ") == b"":
            hdr = None
            i += 1
            continue
        if i + 1 < len(lines) and is_rule(lines[i + 1]):
            hdr = cells_of(line)
            i += 2
            continue
        if hdr is None:
            raise CodecError("markdown: data line before any header")
        cs = cells_of(line)
        if len(cs) != len(hdr):
            raise CodecError("markdown: %d cells under a %d-column header" % (len(cs), len(hdr)))
        out.append(list(zip(hdr, cs)))
        i += 1
    return out


def write_csvlite(records, fs=b",", rs=b"\n", header=True):
    """CSV-lite: no quoting whatsoever; a schema change is an empty line then a new header."""
    out = []
    for keys, rows in records_to_blocks(records):
        lines = ([fs.join(keys)] if header else []) + [fs.join(r) for r in rows]
        out.append(rs.join(lines) + rs)
    return rs.join(out)


def read_csvlite_document(data, fs=b",", rs=None, single_block=False):
    """Naive split on RS and FS; an empty line ends a block, the next line is a new header."""
    out = []
    hdr = None
    nblocks = 0
    for line in split_lines(data, rs):
        if line == b"":
            hdr = None
            continue
        cells = line.split(fs)
        if hdr is None:
            hdr = cells
            nblocks += 1
            if single_block and nblocks > 1:
                raise CodecError("more than one header block")
            continue
        if len(cells) != len(hdr):
            raise CodecError("csvlite: %d cells under a %d-column header" % (len(cells), len(hdr)))
        out.append(list(zip(hdr, cells)))
    return out


def read_csv_document(data, fs=b",", header=True, allow_bom=True):
    """Strict single CSV document: RFC-4180 text, ONE header line, every data row as long as
    the header, no blank lines. Both independent tokenizers must agree (single-byte fs)."""
    if allow_bom and data.startswith(BOM):
        data = data[len(BOM):]
    rows = parse_csv(data, fs=fs, strict=True)
    if len(fs) == 1:
        rows2 = parse_csv_py(data, fs=fs)
        if rows2 != rows:
            raise CodecError("the two independent CSV readers disagree on this text")
    for r in rows:
        if r == [b""] and (not rows or len(rows[0]) != 1):
            raise CodecError("blank line inside a CSV document")
    return rows_to_records(rows, implicit_header=not header)


def read_csv_blocks(data, fs=b","):
    """CSV with RFC-4180 quoting AND csvlite-style schema-change blocks (an empty line, then a
    new header) -- what `--no-auto-unsparsify` documents."""
    rows = parse_csv(data, fs=fs, strict=True)
    out = []
    hdr = None
    for r in rows:
        if r == [b""]:
            hdr = None
            continue
        if hdr is None:
            hdr = r
            continue
        if len(r) != len(hdr):
            raise CodecError("data row has %d cells, header has %d" % (len(r), len(hdr)))
        out.append(list(zip(hdr, r)))
    return out


def read_tsv_document(data, header=True):
    rows = parse_tsv(data)
    for r in rows:
        if r == [b""] and rows and len(rows[0]) != 1:
            raise CodecError("blank line inside a TSV document")
    return rows_to_records(rows, implicit_header=not header)


def read_document(fmt, data, **opts):
    """Strict single-document reader by format name. JSON formats return JObj records, the
    others (key-bytes, value-bytes) records."""
    if isinstance(data, str):
        data = data.encode("utf-8", "surrogateescape")
    f = {
        "csv": read_csv_document,
        "tsv": read_tsv_document,
        "csvlite": lambda d, **o: read_csvlite_document(d, **dict({"single_block": True}, **o)),
        "tsvlite": lambda d, **o: read_csvlite_document(d, **dict({"fs": b"\t", "single_block": True}, **o)),
        "json": read_json_document,
        "jsonl": read_jsonl_document,
        "dkvp": read_dkvp_document,
        "nidx": read_nidx_document,
        "xtab": read_xtab_document,
        "pprint": read_pprint_document,
        "markdown": read_markdown_document,
    }.get(fmt)
    if f is None:
        raise CodecError("no strict reader for format %r" % fmt)
    return f(data, **opts)


# ==========================================================================================
# DKVPX (file-formats.md: 'like DKVP but with CSV-style double-quote handling. Keys and values
# that contain comma, equals, newline, or double-quote are quoted as needed; unquoted keys and
# values work as in DKVP')

def dkvpx_needs_quote(cell, fs=b",", ps=b"="):
    return (fs in cell) or (ps in cell) or (b'"' in cell) or (b"\r" in cell) or (b"\n" in cell)


def write_dkvpx(records, fs=b",", ps=b"=", rs=b"\n", quote="minimal", rng=None):
    """quote: 'minimal' (only cells containing FS, PS, quote, CR or LF), 'all', 'random'."""
    def q(c):
        if quote == "all" or dkvpx_needs_quote(c, fs, ps) or (quote == "random" and rng is not None and rng.random() < 0.4):
            return csv_quote(c)
        return c
    return b"".join(fs.join(q(k) + ps + q(v) for k, v in r) + rs for r in records)


def read_dkvpx_document(data, fs=b",", ps=b"="):
    """Strict reader: a record is a line (LF or CRLF outside quotes) of FS-separated fields; a field is
    token [PS token]; a token is either a CSV-style quoted string ("" = one quote; may contain FS, PS,
    CR and LF) or an unquoted run. Unquoted, the field works as in DKVP: split at the first PS, a field
    without PS gets its 1-up position as key. A quote inside an unquoted token, or text directly after
    a closing quote other than PS / FS / end of line, raises CodecError. An empty line is not a record."""
    n = len(data)
    i = 0
    out = []
    rec = []
    DQ = 0x22

    def token(i, stop_at_ps):
        if i < n and data[i] == DQ:
            i += 1
            buf = bytearray()
            while True:
                j = data.find(b'"', i)
                if j < 0:
                    raise CodecError("dkvpx: unterminated quoted token")
                buf += data[i:j]
                if j + 1 < n and data[j + 1] == DQ:
                    buf.append(DQ)
                    i = j + 2
                    continue
                return bytes(buf), j + 1, True
        j = i
        while j < n:
            c = data[j]
            if c == 0x0A or data.startswith(fs, j) or (stop_at_ps and data.startswith(ps, j)):
                break
            if c == 0x0D and j + 1 < n and data[j + 1] == 0x0A:
                break
            if c == DQ:
                raise CodecError("dkvpx: quote inside an unquoted token at byte %d" % j)
            j += 1
        return data[i:j], j, False

    def at_eol(i):
        if i >= n:
            return 0
        if data[i] == 0x0A:
            return 1
        if data[i] == 0x0D and i + 1 < n and data[i + 1] == 0x0A:
            return 2
        return -1

    while i < n:
        e = at_eol(i)
        if e > 0 and not rec:
            i += e           # empty line
            continue
        a, i, quoted = token(i, True)
        if data.startswith(ps, i):
            b, i, quoted = token(i + len(ps), False)
            rec.append((a, b))
        else:
            rec.append((str(len(rec) + 1).encode(), a))
        e = at_eol(i)
        if e >= 0:
            i += e
            out.append(rec)
            rec = []
        elif data.startswith(fs, i):
            i += len(fs)
            if at_eol(i) >= 0:
                raise CodecError("dkvpx: field separator at end of line")
        else:
            raise CodecError("dkvpx: text after closing quote at byte %d" % i)
    if rec:
        out.append(rec)
    return out
