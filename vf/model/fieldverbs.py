"""Ordered-dict reference models for Miller's field-restructuring verbs (C12), written from
reference-verbs.md / `mlr <verb> --help` usage text - not from the Go sources.

A record is a list of (name, value-text) pairs.  Models raise Decline for a whole case, or return
None in place of one record, when the documentation does not determine the result (name
collisions, repeated names in a list, ...): the oracle declines rather than guesses."""
import re


class Decline(Exception):
    pass


def names(rec):
    return [k for k, _ in rec]


def has_dup_names(rec):
    n = names(rec)
    return len(set(n)) != len(n)


# ------------------------------------------------------------------------------------------
# regex catalogue: (Miller spelling, Python pattern, Python flags).  No commas (they sit in
# comma-separated lists); constructs whose meaning is the same in RE2 and in Python's re.
REGEXES = [
    ("^a", "^a", 0), ("b$", "b$", 0), ("^a$", "^a$", 0), ("a", "a", 0), ("^n[0-9]+$", "^n[0-9]+$", 0),
    ("x|y", "x|y", 0), ("\\.", "\\.", 0), ('"^a"i', "^a", re.I), ('"B"', "B", 0), ("^[xyz]$", "^[xyz]$", 0),
    ("^w1", "^w1", 0), ("c", "c", 0), ("^.$", "^.$", 0), ('"^[ab]+$"i', "^[ab]+$", re.I), ("^w[0-9]$", "^w[0-9]$", 0),
    ("[*]", "[*]", 0), (" ", " ", 0), ("^_", "^_", 0),
]


def rx_match(rx, name):
    return re.search(rx[1], name, rx[2]) is not None


# ------------------------------------------------------------------------------------------
# cut

def cut(rec, F, ordered=False, complement=False, regexes=None):
    if regexes is not None:
        sel = lambda k: any(rx_match(r, k) for r in regexes)     # noqa: E731
        if ordered:
            raise Decline("cut -o with -r: output order not documented")
    else:
        sel = lambda k: k in F                                    # noqa: E731
    if complement:
        return [(k, v) for k, v in rec if not sel(k)]
    if ordered:
        if len(set(F)) != len(F):
            raise Decline("repeated names with -o")
        d = dict(rec)
        return [(k, d[k]) for k in F if k in d]
    return [(k, v) for k, v in rec if sel(k)]


def template(rec, F, fill=""):
    if len(set(F)) != len(F):
        raise Decline("repeated template names")
    d = dict(rec)
    return [(k, d.get(k, fill)) for k in F]


def reorder(rec, F, end=False, regexes=None, before=None, after=None):
    if regexes is not None:
        taken, groups = set(), []
        for r in regexes:
            g = [(k, v) for k, v in rec if rx_match(r, k)]
            if any(k in taken for k, _ in g):
                return None            # a field matching two regexes: grouping not documented
            taken |= {k for k, _ in g}
            groups += g
        rest = [(k, v) for k, v in rec if k not in taken]
        return rest + groups if end else groups + rest
    if len(set(F)) != len(F):
        raise Decline("repeated names")
    d = dict(rec)
    moved = [(k, d[k]) for k in F if k in d]
    rest = [(k, v) for k, v in rec if k not in F]
    pivot = before if before is not None else after
    if pivot is not None:
        if pivot in F:
            raise Decline("pivot among the moved names")
        if pivot not in d:
            return list(rec)
        i = names(rest).index(pivot)
        if before is not None:
            return rest[:i] + moved + rest[i:]
        return rest[:i + 1] + moved + rest[i + 1:]
    return rest + moved if end else moved + rest


def rename(rec, pairs):
    """pairs: [(old, new)] applied in order; renaming keeps the position.  Renaming onto an existing
    OTHER field is not documented -> None.  Renaming a field to its own name is the identity."""
    out = list(rec)
    for old, new in pairs:
        ns = names(out)
        if old not in ns:
            continue
        if new == old:
            continue
        if new in ns:
            return None
        i = ns.index(old)
        out[i] = (new, out[i][1])
    return out


def rename_regex(rec, rx, repl, gsub=False):
    out = list(rec)
    for i, (k, v) in enumerate(list(out)):
        if not rx_match(rx, k):
            continue
        new = re.sub(rx[1], repl, k, count=0 if gsub else 1, flags=rx[2])
        if new == k:
            continue
        if new in names(out) or new == "":
            return None
        out[i] = (new, v)
    return out


def label(rec, new):
    if len(set(new)) != len(new):
        raise Decline("labels must be unique")
    n = min(len(new), len(rec))
    rest_names = names(rec)[n:]
    if any(x in rest_names for x in new[:n]):
        return None                      # new label equals a later field's name: not documented
    return [(new[i], rec[i][1]) for i in range(n)] + list(rec[n:])


def regularize(recs):
    seen = {}
    out = []
    for r in recs:
        if has_dup_names(r):
            raise Decline("dup")
        key = tuple(sorted(names(r)))
        if key in seen:
            d = dict(r)
            out.append([(k, d[k]) for k in seen[key]])
        else:
            seen[key] = names(r)
            out.append(list(r))
    return out


def sort_within_records(rec):
    return sorted(rec, key=lambda kv: kv[0])     # code point order == UTF-8 byte order


def unsparsify(recs, fill=""):
    union = []
    s = set()
    for r in recs:
        for k, _ in r:
            if k not in s:
                s.add(k)
                union.append(k)
    out = []
    for r in recs:
        d = dict(r)
        out.append([(k, d.get(k, fill)) for k in union])
    return out


def unsparsify_f(rec, F, fill=""):
    if len(set(F)) != len(F):
        raise Decline("repeated names")
    d = dict(rec)
    return list(rec) + [(k, fill) for k in F if k not in d]


def sparsify(rec, filler="", F=None):
    return [(k, v) for k, v in rec if not (v == filler and (F is None or k in F))]


def fill_empty(rec, fill="N/A"):
    return [(k, fill if v == "" else v) for k, v in rec]


# ------------------------------------------------------------------------------------------
# nest

def nest_explode_values_records(rec, f, fs):
    d = dict(rec)
    if f not in d:
        return [list(rec)]
    return [[(k, piece if k == f else v) for k, v in rec] for piece in d[f].split(fs)]


def nest_explode_values_fields(rec, f, fs):
    out = []
    for k, v in rec:
        if k == f:
            for i, piece in enumerate(v.split(fs)):
                out.append((f"{f}_{i+1}", piece))
        else:
            out.append((k, v))
    if has_dup_names(out):
        return None
    return [out]


def _pair(piece, f, ps):
    if ps in piece:
        k, v = piece.split(ps, 1)
        return (k, v)
    return None


def nest_explode_pairs_records(rec, f, fs, ps):
    d = dict(rec)
    if f not in d:
        return [list(rec)]
    outs = []
    for piece in d[f].split(fs):
        p = _pair(piece, f, ps)
        if p is None:
            return None       # piece without the pair separator: result not documented
        o = [(p if k == f else (k, v)) for k, v in rec]
        if has_dup_names(o):
            return None
        outs.append(o)
    return outs


def nest_explode_pairs_fields(rec, f, fs, ps):
    out = []
    for k, v in rec:
        if k == f:
            for piece in v.split(fs):
                p = _pair(piece, f, ps)
                if p is None:
                    return None
                out.append(p)
        else:
            out.append((k, v))
    if has_dup_names(out):
        return None
    return [out]


def nest_implode_values_records(recs, f, fs):
    """Records lacking the field pass through at once; the others are held to end of stream, grouped by
    their other fields (names and values, in order), emitted in first-appearance order with the field's
    values joined in the first record of the group."""
    passed, groups = [], {}
    for r in recs:
        d = dict(r)
        if f not in d:
            passed.append(list(r))
            continue
        key = tuple((k, v) for k, v in r if k != f)
        if key not in groups:
            groups[key] = [list(r), []]
        groups[key][1].append(d[f])
    out = list(passed)
    for key, (first, vals) in groups.items():
        out.append([(k, fs.join(vals) if k == f else v) for k, v in first])
    return out


# ------------------------------------------------------------------------------------------
# reshape

def reshape_wide_to_long(rec, sel, kname, vname):
    """sel(name) -> bool.  -> list of output records for this input (order within the group is compared
    as a multiset by the caller: -i order vs record order is not documented)."""
    picked = [(k, v) for k, v in rec if sel(k)]
    others = [(k, v) for k, v in rec if not sel(k)]
    if not picked:
        return [list(rec)]
    if kname in dict(others) or vname in dict(others) or kname == vname:
        return None
    return [others + [(kname, k), (vname, v)] for k, v in picked]


def reshape_long_to_wide(recs, kname, vname):
    """-> (passed-through records in order, list of wide records).  Declines when cells are missing
    (buckets with different key sets): the docs do not say whether they are filled."""
    passed, buckets = [], {}
    for r in recs:
        d = dict(r)
        if kname not in d or vname not in d:
            passed.append(list(r))
            continue
        others = tuple((k, v) for k, v in r if k not in (kname, vname))
        b = buckets.setdefault(others, [])
        for i, (k, _) in enumerate(b):
            if k == d[kname]:
                b[i] = (k, d[vname])
                break
        else:
            b.append((d[kname], d[vname]))
    wide = []
    for others, pairs in buckets.items():
        o = list(others) + pairs
        if has_dup_names(o):
            raise Decline("key value collides with another field name")
        wide.append(o)
    keysets = {tuple(sorted(k for k, _ in pairs)) for pairs in buckets.values()}
    if len(keysets) > 1:
        raise Decline("missing cells")
    return passed, wide


# ------------------------------------------------------------------------------------------
# altkv, case, unspace, subs

def altkv(rec):
    vals = [v for _, v in rec]
    out = []
    n = len(vals)
    for i in range(0, n - 1, 2):
        out.append((vals[i], vals[i + 1]))
    if n % 2 == 1:
        out.append((str((n + 1) // 2), vals[-1]))
    if has_dup_names(out) or any(k == "" for k, _ in out):
        return None
    return out


def _sentence(s):
    return s[:1].upper() + s[1:].lower()


def _title(s):
    return " ".join(_sentence(w) for w in s.split(" "))


CASERS = {"-u": str.upper, "-l": str.lower, "-s": _sentence, "-t": _title}


def case(rec, how, keys=True, values=True, F=None):
    f = CASERS[how]
    out = []
    for k, v in rec:
        if F is None or k in F:
            out.append((f(k) if keys else k, f(v) if values else v))
        else:
            out.append((k, v))
    if has_dup_names(out):
        return None
    return out


def unspace(rec, filler="_", keys=True, values=True):
    out = [(k.replace(" ", filler) if keys else k, v.replace(" ", filler) if values else v) for k, v in rec]
    if has_dup_names(out) or any(k == "" for k, _ in out):
        return None
    return out


def subs(rec, which, sel, old, new):
    """which in sub/gsub/ssub; sel(name)->bool; old = (Miller text, python pattern) ; new = (Miller text, python repl)."""
    out = []
    for k, v in rec:
        if sel(k):
            if which == "ssub":
                v2 = v.replace(old[0], new[2], 1)
            else:
                v2 = re.sub(old[1], new[1], v, count=1 if which == "sub" else 0)
            out.append((k, v2))
        else:
            out.append((k, v))
    return out


# ------------------------------------------------------------------------------------------
# sec2gmt (integer inputs only)

def sec2gmt_int(text, ndec=0, unit=1):
    """text: decimal integer; unit: 1, 1000, 10**6, 10**9 (units per second).  Exact integer arithmetic;
    fractional digits are truncated toward minus infinity like the integer part (floor)."""
    import datetime
    n = int(text)
    total_ns = n * (10**9 // unit)
    sec, frac = divmod(total_ns, 10**9)
    dt = datetime.datetime(1970, 1, 1) + datetime.timedelta(seconds=sec)
    s = dt.strftime("%Y-%m-%dT%H:%M:%S")
    if dt.year < 1000:
        s = f"{dt.year:04d}" + s[s.index("-"):]
    if ndec > 0:
        s += "." + f"{frac:09d}"[:ndec]
    return s + "Z"


# ------------------------------------------------------------------------------------------
# structured values (JSON records): flatten / unflatten / json-stringify / json-parse

class Num(str):
    """A JSON number kept as its source text.  A number is never equal to the string with the same text
    (1 vs "1" is exactly what json-stringify / json-parse and the bystander rule are about)."""
    def __repr__(self):
        return f"Num({str.__repr__(self)})"

    def __eq__(self, other):
        if isinstance(other, Num):
            return str.__eq__(self, other)
        return False if isinstance(other, str) else NotImplemented

    def __ne__(self, other):
        r = self.__eq__(other)
        return r if r is NotImplemented else not r

    def __hash__(self):
        return hash(("Num", str(self)))


def typed_text(v):
    """Canonical text of a structured value that keeps what Python's == forgets: key order inside maps,
    number vs string, true vs 1."""
    return json_encode(v)


def same_fields(a, b):
    """Two lists of (name, value): equal names, order, value types and - inside maps - key order."""
    if a != b:
        return False
    if all(type(v) is str for _, v in a) and all(type(v) is str for _, v in b):
        return True
    return [(k, typed_text(v)) for k, v in a] == [(k, typed_text(v)) for k, v in b]


def flatten_value(prefix, v, sep, out):
    if isinstance(v, dict):
        if not v:
            out.append((prefix, "{}"))
        for k, x in v.items():
            flatten_value(prefix + sep + k, x, sep, out)
    elif isinstance(v, list):
        if not v:
            out.append((prefix, "[]"))
        for i, x in enumerate(v):
            flatten_value(prefix + sep + str(i + 1), x, sep, out)
    else:
        out.append((prefix, v))


def flatten(rec, sep=".", F=None):
    out = []
    for k, v in rec:
        if (F is None or k in F) and isinstance(v, (dict, list)):
            flatten_value(k, v, sep, out)
        else:
            out.append((k, v))
    if has_dup_names(out):
        return None
    return out


def _arrayify(v):
    if isinstance(v, dict):
        v = {k: _arrayify(x) for k, x in v.items()}
        ks = list(v.keys())
        if ks and ks == [str(i + 1) for i in range(len(ks))]:
            return list(v.values())
    return v


def unflatten(rec, sep=".", F=None):
    out = {}
    for k, v in rec:
        parts = k.split(sep)
        if len(parts) == 1 or (F is not None and parts[0] not in F):
            if isinstance(v, str) and not isinstance(v, Num) and v in ("{}", "[]") and (F is None or k in F):
                v = {} if v == "{}" else []
            if k in out:
                return None
            out[k] = v
            continue
        if any(p == "" for p in parts):
            return None          # leading/trailing/double separator: documented as not unflattenable
        if isinstance(v, str) and not isinstance(v, Num) and v in ("{}", "[]"):
            v = {} if v == "{}" else []
        cur = out
        for p in parts[:-1]:
            if p not in cur:
                cur[p] = {}
            elif not isinstance(cur[p], dict):
                return None      # scalar and map under the same name
            cur = cur[p]
        if parts[-1] in cur:
            return None
        cur[parts[-1]] = v
    return [(k, _arrayify(v)) for k, v in out.items()]


def json_encode(v):
    """Miller's single-line JSON rendering: ', ' and ': ' separators, numbers as their source text."""
    import json
    if isinstance(v, dict):
        return "{" + ", ".join(json.dumps(k, ensure_ascii=False) + ": " + json_encode(x) for k, x in v.items()) + "}"
    if isinstance(v, list):
        return "[" + ", ".join(json_encode(x) for x in v) + "]"
    if isinstance(v, Num):
        return str(v)
    if v is True:
        return "true"
    if v is False:
        return "false"
    if v is None:
        return "null"
    return json.dumps(v, ensure_ascii=False)


def json_decoder():
    import json
    return json.JSONDecoder(object_pairs_hook=lambda pairs: dict(pairs), parse_float=Num, parse_int=Num,
                            parse_constant=Num)


def parse_structured_records(text):
    """mlr --ojson output -> list of records (list of (name, value)) keeping number texts."""
    import json
    dec = json.JSONDecoder(object_pairs_hook=lambda pairs: _Pairs(pairs), parse_float=Num, parse_int=Num)
    text = text.strip()
    if not text:
        return []
    top = dec.decode(text)
    if isinstance(top, _Pairs):
        top = [top]
    return [[(k, _plain(v)) for k, v in r] for r in top]


class _Pairs(list):
    pass


def _plain(v):
    if isinstance(v, _Pairs):
        return {k: _plain(x) for k, x in v}
    if isinstance(v, list):
        return [_plain(x) for x in v]
    return v
