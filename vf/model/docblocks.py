"""Doc-replay helper used by C12/C13 (DESIGN 2.9), kept separate from vf/model/docreplay.py (another
property's helper with a different interface).  Every GENMD block
`<pre class="pre-highlight-in-pair"><b>mlr ...</b></pre>` + `pre-non-highlight-in-pair` in
/repo/docs/src/*.md is a recorded upstream execution (command, expected stdout).  Only commands that
are a single mlr invocation without shell syntax are replayed (argv via shlex, no shell); the data
files a command names are copied into the scratch cwd, so /repo is only ever read."""
import html
import os
import re
import shlex

DOCS = "/repo/docs/src"

_BLOCK = re.compile(
    r'<pre class="pre-highlight-in-pair">\n(.*?)</pre>\n<pre class="pre-non-highlight-in-pair">\n(.*?)</pre>',
    re.S)

_SHELL_TOKENS = {"|", ">", ">>", "<", ";", "&&", "||", "&", "2>&1"}


def blocks(md_name):
    """-> list of (command text, expected stdout text, nearest preceding '## ' heading)."""
    path = os.path.join(DOCS, md_name)
    try:
        with open(path, encoding="utf-8") as f:
            text = f.read()
    except OSError:
        return []
    heads = [(m.start(), m.group(1).strip()) for m in re.finditer(r'^## (.*)$', text, re.M)]
    out = []
    for m in _BLOCK.finditer(text):
        cmd_lines = []
        for line in m.group(1).split("\n"):
            if line.startswith("<b>") and line.endswith("</b>"):
                cmd_lines.append(html.unescape(line[3:-4]))
        cmd = "\n".join(cmd_lines)
        exp = html.unescape(m.group(2))
        h = ""
        for pos, name in heads:
            if pos < m.start():
                h = name
            else:
                break
        out.append((cmd, exp, h))
    return out


def plain_argv(cmd):
    """argv (without 'mlr') if cmd is one plain mlr invocation, else None."""
    if "\n" in cmd and not all(l.rstrip().endswith("\\") for l in cmd.split("\n")[:-1]):
        return None     # several commands in one block
    flat = cmd.replace("\\\n", " ")
    if "<(" in flat or "$(" in flat or "`" in flat:
        return None
    try:
        toks = shlex.split(flat, posix=True)
    except ValueError:
        return None
    if not toks or toks[0] != "mlr":
        return None
    try:
        lex = shlex.shlex(flat, posix=True, punctuation_chars=True)
        lex.whitespace_split = True
        for t in lex:
            if t in _SHELL_TOKENS or (t and set(t) <= set("|&;<>")):
                return None
    except ValueError:
        return None
    return toks[1:]


def needed_files(argv):
    """Relative paths named in argv that exist under the docs tree -> {name: bytes}."""
    files = {}
    for t in argv:
        if t.startswith("-") or "/" == t[:1] or ".." in t:
            continue
        p = os.path.join(DOCS, t)
        if os.path.isfile(p):
            try:
                with open(p, "rb") as f:
                    files[t] = f.read()
            except OSError:
                pass
    return files
