"""Format table shared by C01 and C02: the hostile-piece alphabet, the per-format
representable-domain predicates (DESIGN.md C01 table; every exclusion is either inherent in
the syntax or documented by Miller), the writer/reader option variants, and the record-list
generator with a 'focus' piece at a chosen position."""
from . import codecs as C

# ------------------------------------------------------------------------------------------
# hostile pieces: (name, bytes, class). class "plain" = does not force any writer off its
# fast path.
U = lambda s: s.encode("utf-8")

PIECES = [
    ("alpha", b"abc", "plain"), ("alnum", b"X1", "plain"), ("int", b"42", "plain"), ("neg", b"-3", "plain"),
    ("float", b"0.50", "number-format"), ("hex", b"0x1F", "number-format"), ("exp", b"1e5", "number-format"),
    ("octal-like", b"007", "number-format"), ("plus", b"+1", "number-format"), ("true", b"true", "plain"),
    ("comma", b",", "sep"), ("semicolon", b";", "sep"), ("pipe", b"|", "sep"), ("tab", b"\t", "tab"),
    ("space", b" ", "space"), ("two-spaces", b"  ", "space"), ("equals", b"=", "sep"), ("colon", b":", "sep"),
    ("colon-space", b": ", "sep"), ("slash", b"/", "plain"), ("dot", b".", "dot"),
    ("dquote", b'"', "quote"), ("two-dquotes", b'""', "quote"), ("squote", b"'", "quote"),
    ("backslash", b"\\", "backslash"), ("bs-t", b"\\t", "backslash"), ("bs-n", b"\\n", "backslash"),
    ("bs-bs", b"\\\\", "backslash"), ("bs-r", b"\\r", "backslash"), ("bs-x", b"\\x", "backslash"),
    ("bs-quote", b'\\"', "backslash"), ("bs-pipe", b"\\|", "backslash"),
    ("lf", b"\n", "lf"), ("cr", b"\r", "cr"), ("crlf", b"\r\n", "crlf"), ("lflf", b"\n\n", "lf"),
    ("dash", b"-", "dash"), ("hash", b"#", "hash"), ("plus-sign", b"+", "plus"), ("braces", b"{}", "brackets"),
    ("brackets", b"[]", "brackets"), ("lbrace", b"{", "brackets"), ("json-ish", b'[1,"a"]', "brackets"),
    ("star", b"*", "plain"), ("percent", b"%d", "plain"), ("dollar", b"$a", "plain"), ("amp", b"&lt;", "plain"),
    ("bom", C.BOM, "bom"),
    ("e-acute", U("\u00e9"), "utf8"), ("sharp-s", U("\u00df"), "utf8"), ("snowman", U("\u2603"), "utf8"),
    ("g-clef", U("\U0001d11e"), "utf8-4byte"), ("combining", U("e\u0301"), "utf8"), ("zwsp", U("\u200b"), "utf8"),
    ("nbsp", U("\u00a0"), "utf8-space"), ("line-sep", U("\u2028"), "utf8-space"), ("nel", U("\u0085"), "utf8-space"),
    ("cjk", U("\u6f22\u5b57"), "utf8"), ("rtl", U("\u05e9\u05dc"), "utf8"), ("ideographic-space", U("\u3000"), "utf8-space"),
    ("usv-fs", U("\u241f"), "utf8"), ("usv-rs", U("\u241e"), "utf8"),
    ("nul", b"\x00", "control"), ("soh", b"\x01", "control"), ("esc", b"\x1b", "control"), ("rs", b"\x1e", "control"),
    ("us", b"\x1f", "control"), ("del", b"\x7f", "control"), ("vt", b"\x0b", "control"), ("ff", b"\x0c", "control"),
    ("bel", b"\x07", "control"),
    ("bad-ff", b"\xff", "invalid-utf8"), ("bad-trunc", b"\xc3", "invalid-utf8"), ("bad-surrogate", b"\xed\xa0\x80", "invalid-utf8"),
    ("bad-overlong", b"\xc0\xaf", "invalid-utf8"), ("bad-cont", b"\x80", "invalid-utf8"),
    ("long-64k", b"L" * 65536, "long"), ("long-hostile", (b'x,"y\n' * 2000), "long"),
    ("empty", b"", "empty"),
]
PIECE_BY_NAME = {n: (b, c) for n, b, c in PIECES}
FILLER = [b"a", b"b", b"k", b"x", b"y", b"z", b"q1", b"ab", b"7", b"12", b"foo", b"bar", b"pan", b"0.25", b"Zq"]


def is_utf8(b):
    try:
        b.decode("utf-8")
        return True
    except UnicodeDecodeError:
        return False


def classes_of(cell):
    """Character classes present in a cell (for violation signatures)."""
    cs = set()
    if cell == b"":
        cs.add("empty")
    if b"\r\n" in cell:
        cs.add("crlf")
    if b"\r" in cell.replace(b"\r\n", b""):
        cs.add("cr")
    if b"\n" in cell.replace(b"\r\n", b""):
        cs.add("lf")
    if cell[:1] in (b"\n", b"\r"):
        cs.add("leading-newline")
    if b"\t" in cell:
        cs.add("tab")
    if b"\\" in cell:
        cs.add("backslash")
    if b'"' in cell:
        cs.add("quote")
    if b" " in cell:
        cs.add("space")
    if b"|" in cell:
        cs.add("pipe")
    if not is_utf8(cell):
        cs.add("invalid-utf8")
    elif any(x >= 0x80 for x in cell):
        cs.add("utf8")
    if any((x < 0x20 and x not in (9, 10, 13)) or x == 0x7F for x in cell):
        cs.add("control")
    if len(cell) > 4096:
        cs.add("long")
    return cs


# ------------------------------------------------------------------------------------------
# domain predicates.  dom(kind, cell) with kind "key" | "val"; plus record-level rules in the
# variant (hetero allowed? positional keys? sole-empty-cell?).

def _has_any(cell, subs):
    return any(s in cell for s in subs if s)


def dom_any(kind, cell):
    return not (kind == "key" and cell == b"")


def make_dom_csv(fs=b","):
    def dom(kind, cell):
        if kind == "key" and cell == b"":
            return False
        return True
    return dom


def make_dom_csvlite(fs=b",", rs=b"\n"):
    """file-formats.md: 'naively splits lines on newline, and fields on comma -- embedded commas
    and newlines are not escaped in any way'."""
    def dom(kind, cell):
        if kind == "key" and cell == b"":
            return False
        if fs in cell or rs in cell:
            return False
        # a separator may also be completed across a cell boundary (multi-byte separators)
        for sep in (fs, rs):
            for n in range(1, len(sep)):
                if cell.endswith(sep[:n]) or cell.startswith(sep[n:]):
                    return False
        if rs == b"\n" and (b"\r" in cell[-1:] ):
            return False   # CR before LF is read as part of a CRLF terminator (documented autodetect)
        return True
    return dom


def make_dom_lines(forbid, key_forbid=(), val_nonempty=False, no_edge_space=False, key_no_edge_space=False,
                   utf8=False, val_not=(), cell_not_start=(), val_not_start=()):
    """Generic line-format domain: substrings that can appear in no cell, extra ones for keys."""
    forbid = [f for f in forbid if f]
    key_forbid = [f for f in key_forbid if f]

    def dom(kind, cell):
        if kind == "key" and cell == b"":
            return False
        if _has_any(cell, forbid):
            return False
        for sep in forbid:
            for n in range(1, len(sep)):
                if cell.endswith(sep[:n]) or cell.startswith(sep[n:]):
                    return False
        if kind == "key" and _has_any(cell, key_forbid):
            return False
        if kind == "key":
            for sep in key_forbid:
                for n in range(1, len(sep)):
                    if cell.endswith(sep[:n]) or cell.startswith(sep[n:]):
                        return False
        if cell.endswith(b"\r"):
            return False       # line formats: CR before the LF terminator is a CRLF ending
        if kind == "val" and val_nonempty and cell == b"":
            return False
        if kind == "val" and cell in val_not:
            return False
        if (no_edge_space or (kind == "key" and key_no_edge_space)) and (cell[:1] == b" " or cell[-1:] == b" "):
            return False
        if any(cell.startswith(p) for p in cell_not_start):
            return False
        if kind == "val" and any(cell.startswith(p) for p in val_not_start):
            return False
        if utf8 and not is_utf8(cell):
            return False
        return True
    return dom


def dom_json(kind, cell):
    return is_utf8(cell)          # JSON text is Unicode (RFC 8259); the empty key is a legal name


def dom_yaml(kind, cell):
    return is_utf8(cell)


def dom_dkvpx(kind, cell):
    # DESIGN: 'anything is representable once quoted'; domain = valid UTF-8 without NUL
    if kind == "key" and cell == b"":
        return False
    return is_utf8(cell) and b"\x00" not in cell


def dom_simple_token(kind, cell):
    """Conservative domain for thinly documented formats (DCF): plain printable ASCII tokens."""
    if cell == b"":
        return False
    return all(0x21 <= x <= 0x7E for x in cell) and not _has_any(cell, (b":", b",", b"#", b"|", b"\\", b'"', b"'"))


def dom_recutils(kind, cell):
    """file-formats.md recutils section: 'FieldName: Value' lines, '+' continuation lines carry
    embedded newlines; documented limitation: a value whose last line ends in a backslash."""
    if not is_utf8(cell) or b"\r" in cell or b"\x00" in cell:
        return False
    if kind == "key":
        return cell != b"" and all((0x30 <= x <= 0x39) or (0x41 <= x <= 0x5A) or (0x61 <= x <= 0x7A) or x == 0x5F for x in cell) \
            and not (0x30 <= cell[0] <= 0x39)
    if cell.endswith(b"\\") or any(l.endswith(b"\\") for l in cell.split(b"\n")):
        return False
    if cell.startswith(b"\n"):
        return False   # documented: an empty first line + continuation reads as the continuation alone
    return True


# ------------------------------------------------------------------------------------------
# variants

class Variant:
    def __init__(self, name, fmt, oflags, iflags, dom, hetero=False, positional=False, pyread=None,
                 pywrite=None, styles=(), sole_empty_ok=True, bytes_ok=False, json_typed=False,
                 single_doc=None, note="", inject=None, key_dom=None, max_fields=16, min_fields=1,
                 unique_first_key_bom=False, readback_extra=(), irs=None, idem2=False):
        self.name = name
        self.fmt = fmt
        self.oflags = list(oflags)
        self.iflags = list(iflags)
        self.dom = dom
        self.hetero = hetero            # heterogeneous record lists are in the domain
        self.positional = positional    # keys are 1..n
        self.pyread = pyread            # bytes -> records (independent reader), or None
        self.pywrite = pywrite          # records -> bytes (independent writer, canonical style), or None
        self.styles = list(styles)      # [(style name, records -> bytes)] legal alternative spellings (direction 2)
        self.sole_empty_ok = sole_empty_ok
        self.bytes_ok = bytes_ok        # invalid UTF-8 is in the domain (byte-transparent format)
        self.json_typed = json_typed
        self.single_doc = single_doc
        self.note = note
        self.max_fields = max_fields
        self.min_fields = min_fields
        self.readback_extra = list(readback_extra)
        self.irs = irs                  # custom multi-byte input record separator, if any
        self.idem2 = idem2              # layout depends on inferred types: idempotence is checked on the second pass


def _csv_read(fs=b",", header=True, blocks=False):
    def f(data):
        if blocks:
            return C.read_csv_blocks(data, fs=fs)
        return C.read_csv_document(data, fs=fs, header=header, allow_bom=False)
    return f


def _csv_write(fs=b",", header=True, **st):
    def f(records, rng=None):
        style = dict(st)
        style["fs"] = fs
        style["rng"] = rng
        return C.write_csv(C.records_to_rows(records, header=header), style)
    return f


def _csv_write_py(fs=b",", eol=b"\n"):
    def f(records, rng=None):
        return C.write_csv_py_quote_all(C.records_to_rows(records), eol=eol, fs=fs)
    return f


def _tsv_write(header=True, **st):
    def f(records, rng=None):
        return C.write_tsv(C.records_to_rows(records, header=header), st)
    return f


def _tsv_read(header=True):
    return lambda data: C.read_tsv_document(data, header=header)


def _crlf(fn):
    return lambda records, rng=None: fn(records).replace(b"\n", b"\r\n")


def _w(fn, **kw):
    return lambda records, rng=None: fn(records, **kw)


def csv_styles(fs=b",", header=True):
    return [
        ("minimal-lf", _csv_write(fs, header)),
        ("minimal-crlf", _csv_write(fs, header, eol=b"\r\n")),
        ("quote-all-lf", _csv_write(fs, header, quote="all")),
        ("quote-all-crlf-nofinal", _csv_write(fs, header, quote="all", eol=b"\r\n", final_eol=False)),
        ("quote-random-lf-nofinal", _csv_write(fs, header, quote="random", final_eol=False)),
        ("quote-random-crlf", _csv_write(fs, header, quote="random", eol=b"\r\n")),
        ("bom-minimal-lf", _csv_write(fs, header, bom=True)),
        ("bom-quote-all-crlf", _csv_write(fs, header, bom=True, quote="all", eol=b"\r\n")),
    ] + ([("python-csv-quote-all", _csv_write_py(fs)), ("python-csv-quote-all-crlf", _csv_write_py(fs, b"\r\n"))] if header else [])


def tsv_styles(header=True):
    return [
        ("lf", _tsv_write(header)),
        ("crlf", _tsv_write(header, eol=b"\r\n")),
        ("lf-nofinal", _tsv_write(header, final_eol=False)),
        ("lazy-backslash", _tsv_write(header, lazy_backslash=True)),
    ]


def build_variants():
    V = Variant
    out = []
    # ---------------- CSV
    dcsv = make_dom_csv()
    out += [
        V("csv", "csv", ["--ocsv"], ["--icsv"], dcsv, pyread=_csv_read(), pywrite=_csv_write(), styles=csv_styles(),
          sole_empty_ok=False, bytes_ok=True, single_doc="csv"),
        V("csv-quote-all", "csv", ["--ocsv", "--quote-all"], ["--icsv"], dcsv, pyread=_csv_read(), pywrite=_csv_write(quote="all"),
          bytes_ok=True, sole_empty_ok=True, single_doc="csv"),
        V("csv-ors-crlf", "csv", ["--ocsv", "--ors", "crlf"], ["--icsv"], dcsv, pyread=_csv_read(),
          pywrite=_csv_write(eol=b"\r\n"), sole_empty_ok=False, bytes_ok=True, single_doc="csv"),
        V("csv-ors-crlf-escaped", "csv", ["--ocsv", "--ors", "\\r\\n"], ["--icsv", "--irs", "lf"], dcsv, pyread=_csv_read(),
          sole_empty_ok=False),
        V("csv-fs-semicolon", "csv", ["--ocsv", "--ofs", ";"], ["--icsv", "--ifs", ";"], make_dom_csv(b";"),
          pyread=_csv_read(b";"), pywrite=_csv_write(b";"), styles=csv_styles(b";")[:6], sole_empty_ok=False, bytes_ok=True),
        V("csv-fs-tab", "csv", ["--ocsv", "--ofs", "tab"], ["--icsv", "--ifs", "tab"], make_dom_csv(b"\t"),
          pyread=_csv_read(b"\t"), pywrite=_csv_write(b"\t"), styles=csv_styles(b"\t")[:4], sole_empty_ok=False),
        V("csv-fs-pipe-name", "csv", ["--ocsv", "--ofs", "pipe"], ["--icsv", "--ifs", "|"], make_dom_csv(b"|"),
          pyread=_csv_read(b"|"), pywrite=_csv_write(b"|"), styles=csv_styles(b"|")[:2], sole_empty_ok=False),
        V("csv-fs-both", "csv", ["--csv", "--fs", "semicolon"], ["--csv", "--fs", ";"], make_dom_csv(b";"),
          pyread=_csv_read(b";"), sole_empty_ok=False),
        V("csv-headerless", "csv", ["--ocsv", "--headerless-csv-output"], ["--icsv", "--implicit-csv-header"], dcsv,
          positional=True, pyread=_csv_read(header=False), pywrite=_csv_write(header=False),
          styles=csv_styles(header=False)[:6], sole_empty_ok=False, bytes_ok=True),
        V("csv-N", "csv", ["--ocsv", "-N"], ["--icsv", "-N"], dcsv, positional=True, pyread=_csv_read(header=False),
          sole_empty_ok=False),
        V("csv-hi-ho-aliases", "csv", ["--ocsv", "--ho"], ["--icsv", "--hi"], dcsv, positional=True,
          pyread=_csv_read(header=False), sole_empty_ok=False),
        V("csv-ragged-reader", "csv", ["--ocsv"], ["--icsv", "--allow-ragged-csv-input"], dcsv, pyread=_csv_read(),
          sole_empty_ok=False),
        V("csv-lazy-quotes-reader", "csv", ["--ocsv"], ["--icsv", "--lazy-quotes"], dcsv, pyread=_csv_read(),
          styles=csv_styles()[:6], sole_empty_ok=False),
        V("csv-no-auto-unsparsify", "csv", ["--ocsv", "--no-auto-unsparsify"], ["--icsv"], dcsv, pyread=_csv_read(),
          sole_empty_ok=False),
        V("csv-skip-comments-reader", "csv", ["--ocsv"], ["--icsv", "--skip-comments"],
          lambda k, c: dcsv(k, c) and not c.startswith(b"#"), pyread=_csv_read(), sole_empty_ok=False),
        V("csv-io-form", "csv", ["-o", "csv"], ["-i", "csv"], dcsv, pyread=_csv_read(), sole_empty_ok=False),
    ]
    # ---------------- csvlite and friends
    dlite = make_dom_csvlite()
    out += [
        V("csvlite", "csvlite", ["--ocsvlite"], ["--icsvlite"], dlite, hetero=True,
          pyread=lambda d: C.read_csvlite_document(d), pywrite=_w(C.write_csvlite),
          styles=[("lf", _w(C.write_csvlite)), ("crlf", _crlf(C.write_csvlite))], sole_empty_ok=False, bytes_ok=True),
        V("csvlite-ragged-reader", "csvlite", ["--ocsvlite"], ["--icsvlite", "--allow-ragged-csv-input"], dlite, hetero=True,
          pyread=lambda d: C.read_csvlite_document(d), sole_empty_ok=False),
        V("csvlite-multichar", "csvlite", ["--ocsvlite", "--ofs", ";;", "--ors", "|\n"],
          ["--icsvlite", "--ifs", ";;", "--irs", "|\n"], make_dom_csvlite(b";;", b"|\n"), hetero=True,
          pyread=lambda d: C.read_csvlite_document(d, fs=b";;", rs=b"|\n"),
          pywrite=_w(C.write_csvlite, fs=b";;", rs=b"|\n"), sole_empty_ok=False, bytes_ok=True, irs=b"|\n"),
        V("csvlite-headerless", "csvlite", ["--ocsvlite", "--headerless-csv-output"], ["--icsvlite", "--implicit-csv-header"],
          dlite, positional=True, sole_empty_ok=False),
        V("tsvlite", "tsvlite", ["--otsvlite"], ["--itsvlite"], make_dom_csvlite(b"\t"), hetero=True,
          pyread=lambda d: C.read_csvlite_document(d, fs=b"\t"), pywrite=_w(C.write_csvlite, fs=b"\t"),
          sole_empty_ok=False, bytes_ok=True),
        V("usv", "csvlite", ["--ousv"], ["--iusv"], make_dom_csvlite(U("\u241f"), U("\u241e")), hetero=True,
          pyread=lambda d: C.read_csvlite_document(d, fs=U("\u241f"), rs=U("\u241e")),
          pywrite=_w(C.write_csvlite, fs=U("\u241f"), rs=U("\u241e")), sole_empty_ok=False, bytes_ok=True, irs=U("\u241e")),
        V("usvlite", "csvlite", ["--ousvlite"], ["--iusvlite"], make_dom_csvlite(U("\u241f"), U("\u241e")), hetero=True,
          pyread=lambda d: C.read_csvlite_document(d, fs=U("\u241f"), rs=U("\u241e")), sole_empty_ok=False, irs=U("\u241e")),
        V("asv", "csvlite", ["--oasv"], ["--iasv"], make_dom_csvlite(b"\x1f", b"\x1e"), hetero=True,
          pyread=lambda d: C.read_csvlite_document(d, fs=b"\x1f", rs=b"\x1e"),
          pywrite=_w(C.write_csvlite, fs=b"\x1f", rs=b"\x1e"), sole_empty_ok=False, bytes_ok=True),
        V("asvlite", "csvlite", ["--oasvlite"], ["--iasvlite"], make_dom_csvlite(b"\x1f", b"\x1e"), hetero=True,
          pyread=lambda d: C.read_csvlite_document(d, fs=b"\x1f", rs=b"\x1e"), sole_empty_ok=False),
        V("csvlite-named-seps", "csvlite", ["--ocsvlite", "--ofs", "usv_fs", "--ors", "usv_rs"], ["--iusv"],
          make_dom_csvlite(U("\u241f"), U("\u241e")), hetero=True, sole_empty_ok=False, irs=U("\u241e")),
    ]
    # ---------------- TSV
    out += [
        V("tsv", "tsv", ["--otsv"], ["--itsv"], dom_any, pyread=_tsv_read(), pywrite=_tsv_write(), styles=tsv_styles(),
          sole_empty_ok=False, bytes_ok=True, single_doc="tsv"),
        V("tsv-ors-crlf", "tsv", ["--otsv", "--ors", "crlf"], ["--itsv"], dom_any, pyread=_tsv_read(),
          pywrite=_tsv_write(eol=b"\r\n"), sole_empty_ok=False, bytes_ok=True),
        V("tsv-headerless", "tsv", ["--otsv", "--headerless-tsv-output"], ["--itsv", "--implicit-tsv-header"], dom_any,
          positional=True, pyread=_tsv_read(header=False), pywrite=_tsv_write(header=False), styles=tsv_styles(False)[:2],
          sole_empty_ok=False, bytes_ok=True),
        V("tsv-ragged-reader", "tsv", ["--otsv"], ["--itsv", "--allow-ragged-tsv-input"], dom_any, pyread=_tsv_read(),
          sole_empty_ok=False),
        V("tsv-t-flag", "tsv", ["-t"], ["-t"], dom_any, pyread=_tsv_read(), sole_empty_ok=False),
    ]
    # ---------------- JSON family (typed, nested)
    out += [
        V("json", "json", ["--ojson"], ["--ijson"], dom_json, hetero=True, json_typed=True, single_doc="json"),
        V("json-jvstack", "json", ["--ojson", "--jvstack"], ["--ijson"], dom_json, hetero=True, json_typed=True, single_doc="json"),
        V("json-no-jvstack", "json", ["--ojson", "--no-jvstack"], ["--ijson"], dom_json, hetero=True, json_typed=True, single_doc="json"),
        V("json-no-jlistwrap", "json", ["--ojson", "--no-jlistwrap"], ["--ijson"], dom_json, hetero=True, json_typed=True),
        V("json-jlistwrap-jl", "json", ["--ojson", "--jl", "--no-jvstack"], ["--ijson"], dom_json, hetero=True, json_typed=True, single_doc="json"),
        V("json-jvquoteall", "json", ["--ojson", "--jvquoteall"], ["--ijson"], dom_json, hetero=True, json_typed=True, single_doc="json"),
        V("jsonl", "jsonl", ["--ojsonl"], ["--ijsonl"], dom_json, hetero=True, json_typed=True, single_doc="jsonl"),
        V("jsonl-jlistwrap", "jsonl", ["--ojsonl", "--jlistwrap"], ["--ijsonl"], dom_json, hetero=True, json_typed=True),
        V("jsonl-jvstack", "jsonl", ["--ojsonl", "--jvstack"], ["--ijson"], dom_json, hetero=True, json_typed=True),
        V("json-in-jsonl-out", "jsonl", ["--ojsonl"], ["--ijson"], dom_json, hetero=True, json_typed=True, single_doc="jsonl"),
        V("yaml", "yaml", ["--oyaml"], ["--iyaml"], dom_yaml, hetero=True, json_typed=True),
        V("yaml-no-yarray", "yaml", ["--oyaml", "--no-yarray"], ["--iyaml"], dom_yaml, hetero=True, json_typed=True),
        V("yaml-ya", "yaml", ["--oyaml", "--ya"], ["--iyaml"], dom_yaml, hetero=True, json_typed=True),
        V("yaml-yarray", "yaml", ["--oyaml", "--yarray"], ["--iyaml"], dom_yaml, hetero=True, json_typed=True),
    ]
    # ---------------- DKVP / DKVPX / NIDX
    ddkvp = make_dom_lines([b",", b"\n"], key_forbid=[b"="])
    ddkvp2 = make_dom_lines([b";", b"\n"], key_forbid=[b":"])
    ddkvp3 = make_dom_lines([b";;", b"\n"], key_forbid=[b"=>"])
    ddkvp4 = make_dom_lines([b",", b"|\n", b"\n"], key_forbid=[b"="])
    out += [
        V("dkvp", "dkvp", ["--odkvp"], ["--idkvp"], ddkvp, hetero=True, pyread=lambda d: C.read_dkvp_document(d),
          pywrite=_w(C.write_dkvp), styles=[("lf", _w(C.write_dkvp)), ("crlf", _crlf(C.write_dkvp))], bytes_ok=True),
        V("dkvp-seps", "dkvp", ["--odkvp", "--ofs", ";", "--ops", ":"], ["--idkvp", "--ifs", ";", "--ips", ":"], ddkvp2,
          hetero=True, pyread=lambda d: C.read_dkvp_document(d, fs=b";", ps=b":"), pywrite=_w(C.write_dkvp, fs=b";", ps=b":"),
          bytes_ok=True),
        V("dkvp-named-seps", "dkvp", ["--odkvp", "--ofs", "semicolon", "--ops", "colon"], ["--idkvp", "--ifs", ";", "--ips", ":"],
          ddkvp2, hetero=True, pyread=lambda d: C.read_dkvp_document(d, fs=b";", ps=b":")),
        V("dkvp-multichar", "dkvp", ["--odkvp", "--ofs", ";;", "--ops", "=>"], ["--idkvp", "--ifs", ";;", "--ips", "=>"], ddkvp3,
          hetero=True, pyread=lambda d: C.read_dkvp_document(d, fs=b";;", ps=b"=>"),
          pywrite=_w(C.write_dkvp, fs=b";;", ps=b"=>"), bytes_ok=True),
        V("dkvp-ors", "dkvp", ["--odkvp", "--ors", "|\n"], ["--idkvp", "--irs", "|\n"], ddkvp4, hetero=True,
          pyread=lambda d: C.read_dkvp_document(d, rs=b"|\n"), irs=b"|\n"),
        V("dkvp-repifs-reader", "dkvp", ["--odkvp"], ["--idkvp", "--repifs"], ddkvp, hetero=True,
          pyread=lambda d: C.read_dkvp_document(d)),
        V("dkvp-fs-ps-both", "dkvp", ["--dkvp", "--fs", ";", "--ps", ":"], ["--dkvp", "--fs", ";", "--ps", ":"], ddkvp2,
          hetero=True, pyread=lambda d: C.read_dkvp_document(d, fs=b";", ps=b":")),
        V("dkvp-incr-key-reader", "dkvp", ["--odkvp"], ["--idkvp", "--incr-key"], ddkvp, hetero=True,
          pyread=lambda d: C.read_dkvp_document(d)),
        V("dkvp-rs-both", "dkvp", ["--dkvp", "--rs", ";"], ["--dkvp", "--rs", ";"], make_dom_lines([b",", b";", b"\n"], key_forbid=[b"="]),
          hetero=True, pyread=lambda d: C.read_dkvp_document(d, rs=b";")),
        V("dkvpx", "dkvpx", ["-o", "dkvpx"], ["-i", "dkvpx"], dom_dkvpx, hetero=True),
        V("dkvpx-seps", "dkvpx", ["-o", "dkvpx", "--ofs", ";", "--ops", ":"], ["-i", "dkvpx", "--ifs", ";", "--ips", ":"], dom_dkvpx,
          hetero=True),
        V("nidx", "nidx", ["--onidx"], ["--inidx"], make_dom_lines([b" ", b"\t", b"\n"], val_nonempty=True), positional=True, hetero=True,
          pyread=lambda d: C.read_nidx_document(d), pywrite=_w(C.write_nidx),
          styles=[("lf", _w(C.write_nidx)), ("crlf", _crlf(C.write_nidx)), ("wide-gaps", _w(C.write_nidx, fs=b"   "))], bytes_ok=True),
        V("nidx-fs-tab", "nidx", ["--onidx", "--ofs", "tab"], ["--inidx", "--ifs", "tab"],
          make_dom_lines([b"\t", b"\n"], val_nonempty=True), positional=True, hetero=True,
          pyread=lambda d: C.read_nidx_document(d, fs=b"\t"), pywrite=_w(C.write_nidx, fs=b"\t"), bytes_ok=True),
        V("nidx-fs-comma", "nidx", ["--onidx", "--ofs", "comma"], ["--inidx", "--ifs", ","],
          make_dom_lines([b",", b"\n"], val_nonempty=True), positional=True, hetero=True,
          pyread=lambda d: C.read_nidx_document(d, fs=b",")),
        V("nidx-p-flag", "nidx", ["-p"], ["-p"], make_dom_lines([b" ", b"\n"], val_nonempty=True), positional=True, hetero=True,
          pyread=lambda d: C.read_nidx_document(d)),
        V("nidx-T-flag", "nidx", ["-T"], ["-T"], make_dom_lines([b"\t", b"\n"], val_nonempty=True), positional=True, hetero=True,
          pyread=lambda d: C.read_nidx_document(d, fs=b"\t")),
        V("nidx-repifs", "nidx", ["--onidx", "--ofs", ";"], ["--inidx", "--ifs", ";", "--repifs"],
          make_dom_lines([b";", b"\n"], val_nonempty=True), positional=True, hetero=True,
          pyread=lambda d: C.read_nidx_document(d, fs=b";")),
    ]
    # ---------------- XTAB
    dxtab = make_dom_lines([b"\n"], key_forbid=[b" "], val_nonempty=True, no_edge_space=True)
    out += [
        V("xtab", "xtab", ["--oxtab"], ["--ixtab"], dxtab, hetero=True, pyread=lambda d: C.read_xtab_document(d),
          pywrite=_w(C.write_xtab), styles=[("aligned", _w(C.write_xtab)), ("unaligned", _w(C.write_xtab, align=False)),
                                              ("crlf", _crlf(C.write_xtab))], bytes_ok=True),
        V("xtab-xvright", "xtab", ["--oxtab", "--xvright"], ["--ixtab"], dxtab, hetero=True, pyread=lambda d: C.read_xtab_document(d)),
        V("xtab-ps-colon", "xtab", ["--oxtab", "--ops", ":"], ["--ixtab", "--ips", ":"],
          make_dom_lines([b"\n"], key_forbid=[b":"], val_nonempty=True, val_not_start=(b":",)), hetero=True,
          pyread=lambda d: C.read_xtab_document(d, ps=b":")),
        V("xtab-ps-multichar", "xtab", ["--oxtab", "--ops", "::"], ["--ixtab", "--ips", "::"],
          make_dom_lines([b"\n"], key_forbid=[b"::", b":"], val_nonempty=True, val_not_start=(b":",)), hetero=True,
          pyread=lambda d: C.read_xtab_document(d, ps=b"::")),
    ]
    # ---------------- PPRINT / markdown
    dpp = make_dom_lines([b" ", b"\n"], val_not=(b"-",))
    dppb = make_dom_lines([b" ", b"\n", b"|"], val_not=(b"-",), cell_not_start=(b"+",))
    out += [
        V("pprint", "pprint", ["--opprint"], ["--ipprint"], dpp, hetero=True, pyread=lambda d: C.read_pprint_document(d),
          pywrite=_w(C.write_pprint), styles=[("left", _w(C.write_pprint)), ("right", _w(C.write_pprint, right=True)),
                                                ("crlf", _crlf(C.write_pprint))], bytes_ok=True),
        V("pprint-right", "pprint", ["--opprint", "--right"], ["--ipprint"], dpp, hetero=True, pyread=lambda d: C.read_pprint_document(d)),
        V("pprint-right-align-numeric", "pprint", ["--opprint", "--right-align-numeric"], ["--ipprint"], dpp, hetero=True,
          pyread=lambda d: C.read_pprint_document(d), idem2=True),
        V("pprint-barred", "pprint", ["--opprint", "--barred"], ["--ipprint", "--barred-input"], dppb, hetero=True,
          pyread=lambda d: C.read_pprint_document(d, barred=True), pywrite=_w(C.write_pprint, barred=True)),
        V("pprint-barred-output-alias", "pprint", ["--opprint", "--barred-output"], ["--ipprint", "--barred-input"], dppb, hetero=True,
          pyread=lambda d: C.read_pprint_document(d, barred=True)),
        V("pprint-barred-right", "pprint", ["--opprint", "--barred", "--right"], ["--ipprint", "--barred-input"], dppb, hetero=True,
          pyread=lambda d: C.read_pprint_document(d, barred=True)),
        V("pprint-p2p", "pprint", ["--pprint"], ["--pprint"], dpp, hetero=True, pyread=lambda d: C.read_pprint_document(d)),
        V("markdown", "markdown", ["--omd"], ["--imd"], make_dom_lines([b"\n"], no_edge_space=True), hetero=True,
          pyread=lambda d: C.read_markdown_document(d), pywrite=_w(C.write_markdown)),
        V("markdown-aligned", "markdown", ["--omd-aligned"], ["--imd"], make_dom_lines([b"\n"], no_edge_space=True), hetero=True,
          pyread=lambda d: C.read_markdown_document(d)),
        V("markdown-md-aligned-both", "markdown", ["--md-aligned"], ["--md-aligned"], make_dom_lines([b"\n"], no_edge_space=True), hetero=True,
          pyread=lambda d: C.read_markdown_document(d)),
        V("markdown-long-names", "markdown", ["--omarkdown"], ["--imarkdown"], make_dom_lines([b"\n"], no_edge_space=True), hetero=True,
          pyread=lambda d: C.read_markdown_document(d)),
        V("markdown-right-align-numeric", "markdown", ["--omd", "--right-align-numeric"], ["--imd"],
          make_dom_lines([b"\n"], no_edge_space=True), hetero=True, pyread=lambda d: C.read_markdown_document(d), idem2=True),
    ]
    # ---------------- DCF / recutils
    out += [
        V("dcf", "dcf", ["--odcf"], ["--idcf"], dom_simple_token, hetero=True, max_fields=8,
          note="thinly documented format: conservative token domain"),
        V("recutils", "recutils", ["--orecutils"], ["--irecutils"], dom_recutils, hetero=True),
    ]
    out += _more_variants()
    return out


VARIANTS = None


def variants():
    global VARIANTS
    if VARIANTS is None:
        VARIANTS = build_variants()
    return VARIANTS


def variant_by_name(name):
    for v in variants():
        if v.name == name:
            return v
    raise KeyError(name)


# ------------------------------------------------------------------------------------------
# generator

POSITIONS = ["val-start-first-first", "val-middle-last-first", "val-end-first-last", "val-whole-last-last",
             "key-start-first", "key-end-last", "key-whole-middle", "val-whole-middle+key"]


def _rand_cell(rng, dom, kind, allowed, hostile_p, tries=30):
    for _ in range(tries):
        n = rng.choice([1, 1, 1, 2, 2, 3])
        parts = []
        for _ in range(n):
            if rng.random() < hostile_p and allowed:
                parts.append(rng.choice(allowed))
            else:
                parts.append(rng.choice(FILLER))
        cell = b"".join(parts)
        if kind == "val" and rng.random() < 0.06:
            cell = b""
        if dom(kind, cell):
            return cell
    for f in FILLER:
        if dom(kind, f):
            return f
    return b"v"


def _place(rng, piece, how, dom, kind):
    """Build a cell containing `piece` at start / middle / end / whole; None if out of domain."""
    for _ in range(8):
        a, b = rng.choice(FILLER), rng.choice(FILLER)
        cell = {"start": piece + b, "middle": a + piece + b, "end": a + piece, "whole": piece}[how]
        if dom(kind, cell):
            return cell
    return None


def allowed_pieces(v, kind, with_bytes=True, with_long=False):
    out = []
    for name, b, cls in PIECES:
        if cls == "long" and not with_long:
            continue
        if cls == "invalid-utf8" and not (with_bytes and v.bytes_ok):
            continue
        if b == b"":
            continue
        if v.dom(kind, b) or v.dom(kind, b"a" + b + b"a"):
            out.append(b)
    return out


def gen_records(rng, v, focus=None, position=None, hostile_p=0.35, allow_bytes=True, nrec=None, nfld=None):
    """-> (records, info) or (None, reason) when the focus piece is outside the variant's domain
    at that position. records: list of lists of (key-bytes, value-bytes)."""
    dom = v.dom
    alk = allowed_pieces(v, "key", allow_bytes)
    alv = allowed_pieces(v, "val", allow_bytes)
    if nrec is None:
        nrec = rng.choice([1, 1, 2, 2, 3, 3, 4, 5, 7, 12, 40])
    if nfld is None:
        nfld = rng.choice([1, 2, 2, 3, 3, 4, 5, 6, 12, 13, 16])
    nfld = max(v.min_fields, min(nfld, v.max_fields))
    big = focus is not None and len(focus) > 4096
    if big:
        nrec, nfld = min(nrec, 3), min(nfld, 3)
        hostile_p = 0.1

    def mk_keys(n):
        if v.positional:
            return [str(i + 1).encode() for i in range(n)]
        ks = []
        seen = set()
        seen_canon = set()
        guard = 0
        while len(ks) < n and guard < 1000:
            guard += 1
            k = _rand_cell(rng, dom, "key", alk, hostile_p * 0.6)
            canon = k.decode("utf-8", "replace").strip()
            if canon in seen_canon:
                continue          # keys that differ only by edge whitespace would collide after any trimming
            seen_canon.add(canon)
            if k in seen or k == b"":
                k = k + str(len(ks)).encode()
                if not dom("key", k) or k in seen:
                    continue
            seen.add(k)
            ks.append(k)
        return ks

    keys = mk_keys(nfld)
    recs = []
    cur_keys = keys
    for i in range(nrec):
        if v.hetero and i and rng.random() < 0.3:
            if v.positional:
                cur_keys = mk_keys(rng.choice([1, 2, 3, nfld]))
            else:
                mode = rng.random()
                if mode < 0.4:
                    cur_keys = mk_keys(rng.choice([1, 2, 3, nfld, min(nfld + 1, v.max_fields)]))
                elif mode < 0.6 and len(keys) > 1:
                    cur_keys = keys[:rng.randint(1, len(keys))]
                elif mode < 0.85 and len(cur_keys) > 1:
                    # same key SET, different ORDER (a schema change for every header-carrying format: a writer that
                    # compares only the count or the membership of the keys prints the values under the wrong names)
                    perm = list(cur_keys)
                    if rng.random() < 0.5:
                        perm = perm[1:] + perm[:1]
                    else:
                        while perm == list(cur_keys):
                            rng.shuffle(perm)
                    cur_keys = perm
                else:
                    cur_keys = keys
        recs.append([(k, _rand_cell(rng, dom, "val", alv, hostile_p)) for k in cur_keys])
    info = {"focus_placed": False}
    if focus is not None:
        kind, how = position.split("-")[0], position.split("-")[1]
        ri = {"first": 0, "last": len(recs) - 1, "middle": len(recs) // 2}
        if kind == "val":
            parts = position.split("-")
            fpos, rpos = parts[2], parts[3].split("+")[0] if len(parts) > 3 else "first"
            if position == "val-whole-middle+key":
                fpos, rpos = "middle", "middle"
            r = recs[ri[rpos]]
            fi = {"first": 0, "last": len(r) - 1, "middle": len(r) // 2}[fpos]
            cell = _place(rng, focus, how, dom, "val")
            if cell is None:
                return None, "focus value out of domain"
            r[fi] = (r[fi][0], cell)
            if position.endswith("+key") and not v.positional:
                kc = _place(rng, focus, "middle", dom, "key")
                if kc is not None and all(kc != k for k, _ in r):
                    old = r[0][0]
                    for rr in recs:
                        for j, (k, val) in enumerate(rr):
                            if k == old:
                                rr[j] = (kc, val)
            info["focus_placed"] = True
        else:
            if v.positional:
                return None, "positional keys"
            fpos = position.split("-")[2]
            r0 = recs[0]
            fi = {"first": 0, "last": len(r0) - 1, "middle": len(r0) // 2}[fpos]
            kc = _place(rng, focus, how, dom, "key")
            if kc is None:
                return None, "focus key out of domain"
            old = r0[fi][0]
            if any(k == kc for rr in recs for k, _ in rr):
                return None, "focus key collides"
            for rr in recs:
                for j, (k, val) in enumerate(rr):
                    if k == old:
                        rr[j] = (kc, val)
            info["focus_placed"] = True
    # record-level domain rules
    if v.fmt == "markdown":
        import re as _re
        for r in recs:
            if all(_re.fullmatch(rb":?-+:?", val) for _, val in r):
                r[0] = (r[0][0], b"v")     # a row of nothing but rule cells is the header rule (inherent)
            if all(_re.fullmatch(rb":?-+:?", k) for k, _ in r):
                return None, "markdown header made of rule cells"
    if not v.sole_empty_ok:
        for r in recs:
            if len(r) == 1 and r[0][1] == b"":
                r[0] = (r[0][0], b"e")
    if not v.json_typed:
        # a text file that begins with the BOM bytes: the BOM is an encoding signature, not data
        k0, v0 = recs[0][0]
        if (not v.positional and k0.startswith(C.BOM)) or ((v.positional or v.fmt in ("xtab", "dkvp", "dkvpx", "dcf", "recutils"))
                                                          and (v0 if v.positional else k0).startswith(C.BOM)):
            return None, "file would begin with the BOM bytes"
    for r in recs:
        canon = [k.decode("utf-8", "replace").strip() for k, _ in r]
        if len(set(canon)) != len(canon):
            return None, "keys collide modulo edge white space"
    return recs, info


# ------------------------------------------------------------------------------------------
# second-pass additions (C01 only; nothing above changes): option x format combinations named in the property
# statement that had no variant, and independent codecs for variants that had none.

def _pprint_headerless_read(data):
    """PPRINT without header lines (--ho): blocks of space-aligned data lines; implicit keys 1..n; '-' = empty."""
    out = []
    for line in C.split_lines(data):
        cells = [c for c in line.split(b" ") if c != b""]
        if cells:
            out.append([(str(i + 1).encode(), (b"" if c == b"-" else c)) for i, c in enumerate(cells)])
    return out


def _pprint_headerless_write(records):
    out = []
    for keys, rows in C.records_to_blocks(records):
        table = [[(c if c != b"" else b"-") for c in row] for row in rows]
        widths = [max(C._ulen(row[j]) for row in table) for j in range(len(keys))]
        out.append(b"\n".join(b" ".join(c + b" " * (widths[j] - C._ulen(c)) for j, c in enumerate(row)).rstrip(b" ")
                              for row in table) + b"\n")
    return b"\n".join(out)


def _more_variants():
    V = Variant
    dlite = make_dom_csvlite()
    ddkvp = make_dom_lines([b",", b"\n"], key_forbid=[b"="])
    dpp = make_dom_lines([b" ", b"\n"], val_not=(b"-",))
    dnidx = make_dom_lines([b" ", b"\t", b"\n"], val_nonempty=True)
    dxt_fs = make_dom_lines([b";", b"\n"], key_forbid=[b" "], val_nonempty=True, no_edge_space=True)
    return [
        # (b) headerless / implicit header for PPRINT (pprint-only-flags: --ho / --hi apply to PPRINT too)
        V("pprint-headerless", "pprint", ["--opprint", "--ho"], ["--ipprint", "--hi"], dpp, positional=True, hetero=True,
          pyread=_pprint_headerless_read, pywrite=_w(_pprint_headerless_write),
          styles=[("left", _w(_pprint_headerless_write)), ("crlf", _crlf(_pprint_headerless_write))]),
        V("tsvlite-headerless", "tsvlite", ["--otsvlite", "--headerless-csv-output"], ["--itsvlite", "--implicit-csv-header"],
          make_dom_csvlite(b"\t"), positional=True, sole_empty_ok=False),
        # (c) --ors crlf for the line formats whose writers accept it (separators page: RS 'or \\r\\n')
        V("csvlite-ors-crlf", "csvlite", ["--ocsvlite", "--ors", "crlf"], ["--icsvlite"], dlite, hetero=True,
          pyread=lambda d: C.read_csvlite_document(d), sole_empty_ok=False),
        V("tsvlite-ors-crlf", "tsvlite", ["--otsvlite", "--ors", "crlf"], ["--itsvlite"], make_dom_csvlite(b"\t"), hetero=True,
          pyread=lambda d: C.read_csvlite_document(d, fs=b"\t"), sole_empty_ok=False),
        V("dkvp-ors-crlf", "dkvp", ["--odkvp", "--ors", "crlf"], ["--idkvp"], ddkvp, hetero=True,
          pyread=lambda d: C.read_dkvp_document(d)),
        V("nidx-ors-crlf", "nidx", ["--onidx", "--ors", "crlf"], ["--inidx"], dnidx, positional=True, hetero=True,
          pyread=lambda d: C.read_nidx_document(d)),
        V("pprint-ors-crlf", "pprint", ["--opprint", "--ors", "crlf"], ["--ipprint"], dpp, hetero=True,
          pyread=lambda d: C.read_pprint_document(d)),
        # (d) custom separators of the separators page that had no variant
        V("xtab-fs-semicolon", "xtab", ["--oxtab", "--ofs", ";"], ["--ixtab", "--ifs", ";"], dxt_fs, hetero=True,
          pyread=lambda d: C.read_xtab_document(d.replace(b";", b"\n"))),
        V("tsvlite-seps", "tsvlite", ["--otsvlite", "--ofs", ";", "--ors", "|\n"], ["--itsvlite", "--ifs", ";", "--irs", "|\n"],
          make_dom_csvlite(b";", b"|\n"), hetero=True, pyread=lambda d: C.read_csvlite_document(d, fs=b";", rs=b"|\n"),
          sole_empty_ok=False, irs=b"|\n"),
        V("nidx-rs", "nidx", ["--onidx", "--ors", ";"], ["--inidx", "--irs", ";"],
          make_dom_lines([b" ", b"\t", b";", b"\n"], val_nonempty=True), positional=True, hetero=True,
          pyread=lambda d: C.read_nidx_document(d, rs=b";")),
    ]


def _dkvpx_w(**kw):
    return lambda records, rng=None: C.write_dkvpx(records, rng=rng, **kw)


# independent codecs for variants defined above without them (looked up by C01 only; the Variant objects are unchanged)
EXTRA_CODECS = {
    "dkvpx": {"pyread": lambda d: C.read_dkvpx_document(d), "pywrite": _dkvpx_w(),
              "styles": [("minimal-lf", _dkvpx_w()), ("quote-all-lf", _dkvpx_w(quote="all")), ("quote-random-crlf", _dkvpx_w(quote="random", rs=b"\r\n")),
                         ("minimal-crlf", _dkvpx_w(rs=b"\r\n"))]},
    "dkvpx-seps": {"pyread": lambda d: C.read_dkvpx_document(d, fs=b";", ps=b":"), "pywrite": _dkvpx_w(fs=b";", ps=b":"),
                   "styles": [("minimal-lf", _dkvpx_w(fs=b";", ps=b":")), ("quote-all-crlf", _dkvpx_w(fs=b";", ps=b":", quote="all", rs=b"\r\n"))]},
    "tsvlite": {"styles": [("lf", _w(C.write_csvlite, fs=b"\t")), ("crlf", _crlf(lambda r: C.write_csvlite(r, fs=b"\t")))]},
    "markdown": {"styles": [("lf", _w(C.write_markdown)), ("crlf", _crlf(C.write_markdown))]},
}
