"""Doc-replay (DESIGN 2.9), restricted form: every GENMD block of a documentation page whose
command is ONE plain `mlr ...` invocation (no pipe, redirect, shell variable or multi-command
line) is replayed against the binary with cwd = /repo/docs/src (read only) and compared with
the recorded output. Blocks that need a shell, write files or are environment-bound are
declined (counted), never guessed."""
import html
import os
import re
import shlex

DOCS = "/repo/docs/src"
_BLOCK = re.compile(r'<pre class="pre-highlight-in-pair">\n(.*?)</pre>\n<pre class="pre-non-highlight-in-pair">\n(.*?)</pre>', re.S)
_SKIP_WORDS = ("tee", "split", "-I", "system", "exec", "hostname", "os.", "version", "--version", "urand", "shuffle", "bootstrap", "sample",
               "systime", "uptime", "--prepipe", "--gzin", "--bz2in", "--zin", "--zstdin", "repl", "help", "regtest", "lecat", "termcvt",
               "seqgen -f", "--nr-progress-mod", "nothing", "--ofmt", "--load", "--mload", "strfntime_local", "--tz", "ENV", "--c2p --barred-input")


def blocks(page):
    path = os.path.join(DOCS, page)
    if not os.path.exists(path):
        return []
    text = open(path, encoding="utf-8").read()
    out = []
    for m in _BLOCK.finditer(text):
        cmd_lines = [html.unescape(re.sub(r"</?b>", "", l)) for l in m.group(1).rstrip("\n").split("\n")]
        out.append(("\n".join(cmd_lines), html.unescape(m.group(2))))
    return out


def plain_mlr_argv(cmd):
    """argv (without 'mlr') if cmd is one plain mlr invocation, else None."""
    cmd = cmd.replace("\\\n", " ")
    if not cmd.startswith("mlr "):
        return None
    try:
        lex = shlex.shlex(cmd, posix=True, punctuation_chars=True)
        lex.whitespace_split = True
        toks = list(lex)
    except ValueError:
        return None
    if any(t in ("|", ">", ">>", "<", ";", "&&", "||", "&", "2>&1", "(", ")") or set(t) <= set("|&;<>()") for t in toks):
        return None
    if "$" in cmd and re.search(r"\$[A-Z({]", cmd.replace("'", " ")) and "'" not in cmd:
        return None
    argv = toks[1:]
    joined = " " + " ".join(argv) + " "
    for w in _SKIP_WORDS:
        if (" " + w + " ") in joined or (w.endswith(".") and w in joined) or (w in ("urand", "system", "exec", "systime", "ENV", "os.", "hostname", "version") and w in joined):
            return None
    if re.search(r"(tee|emit|print|dump|printn|emitp)\s*>", cmd) or "redirect" in cmd:
        return None
    return argv


def _num_tolerant_equal(a, b):
    if a == b:
        return True
    ta = re.split(r"(-?\d+\.\d+(?:[eE][-+]?\d+)?)", a)
    tb = re.split(r"(-?\d+\.\d+(?:[eE][-+]?\d+)?)", b)
    if len(ta) != len(tb):
        return False
    for i, (x, y) in enumerate(zip(ta, tb)):
        if i % 2 == 0:
            if x != y:
                return False
        elif x != y:
            try:
                fx, fy = float(x), float(y)
            except ValueError:
                return False
            if abs(fx - fy) > 1e-12 * max(1.0, abs(fx), abs(fy)):
                return False
    return True


def replay_page(case):
    """Worker: case = {"page":..., "prop":...}. Uses the harness result protocol."""
    from .. import run as R
    from ..harness import add_violation, bump, case_result
    page = case["page"]
    res = case_result("docreplay:" + page, True, evals=0)
    keys = []
    for cmd, expected in blocks(page):
        argv = plain_mlr_argv(cmd)
        if argv is None:
            bump(res, "docreplay_declined")
            continue
        r = R.mlr(argv, cwd=DOCS, stdin=b"")
        res["evals"] += 1
        if r.verdict == "slow":
            res["inconc"] += 1
            continue
        out, err = r.stdout.decode("utf-8", "replace"), r.stderr.decode("utf-8", "replace")
        if any(_num_tolerant_equal(expected, cand) for cand in (out, out + err, err + out, err)):
            bump(res, "docreplay_reproduced")
            keys.append("docreplay:" + page + ":" + cmd)
        else:
            add_violation(res, {"kind": "docreplay", "page": page, "cmd": cmd[:120]},
                          f"{page}: the documentation records a different output for `{cmd[:200]}`",
                          {"argv": argv, "cwd": DOCS, "expected": expected[:3000], "got_stdout": out[:3000], "got_stderr": err[:1000]})
    res["nontrivial_keys"] = keys
    return res
