"""C03 helper: structured (JSON) records whose numbers keep their source text, a JSON writer/reader that
keeps that text, and the documented flatten rule (flatten-unflatten.md) - used by C03's monitor c
("functions only read their arguments").  No Miller logic is mirrored here: the oracle is text equality
between the structure that went in and the structure that came out."""
import json


class Num(str):
    """A JSON number token kept as its source text; never equal to the string with the same text."""
    def __repr__(self):
        return "Num(" + str.__repr__(self) + ")"

    def __eq__(self, other):
        if isinstance(other, Num):
            return str.__eq__(self, other)
        return False if isinstance(other, str) else NotImplemented

    def __ne__(self, other):
        r = self.__eq__(other)
        return r if r is NotImplemented else not r

    def __hash__(self):
        return hash(("Num", str(self)))


class Pairs(list):
    """A JSON object as an ordered list of (key, value) - keeps order and duplicate keys."""


def encode(v):
    if isinstance(v, Pairs):
        return "{" + ", ".join(json.dumps(k, ensure_ascii=False) + ": " + encode(x) for k, x in v) + "}"
    if isinstance(v, list):
        return "[" + ", ".join(encode(x) for x in v) + "]"
    if isinstance(v, Num):
        return str(v)
    if v is True:
        return "true"
    if v is False:
        return "false"
    if v is None:
        return "null"
    return json.dumps(v, ensure_ascii=False)


_DEC = json.JSONDecoder(object_pairs_hook=lambda pairs: Pairs(pairs), parse_float=Num, parse_int=Num, parse_constant=Num)


def decode_records(text):
    """mlr --ojson / --ojsonl output -> list of Pairs; None if it is not well-formed."""
    text = text.strip()
    if not text:
        return []
    try:
        if text.startswith("["):
            top = _DEC.decode(text)
        else:
            top = []
            pos = 0
            while pos < len(text):
                obj, end = _DEC.raw_decode(text, pos)
                top.append(obj)
                pos = end
                while pos < len(text) and text[pos] in " \t\r\n,":
                    pos += 1
    except ValueError:
        return None
    if isinstance(top, Pairs):
        top = [top]
    if not isinstance(top, list) or not all(isinstance(r, Pairs) for r in top):
        return None
    return top


def first_difference(want, got, path=""):
    """None if the two structures are identical in kind, order and token text; else (path, want, got)."""
    if isinstance(want, Pairs):
        if not isinstance(got, Pairs):
            return (path, encode(want)[:200], encode(got)[:200])
        if [k for k, _ in want] != [k for k, _ in got]:
            return (path + "{keys}", [k for k, _ in want], [k for k, _ in got])
        for (k, a), (_, b) in zip(want, got):
            d = first_difference(a, b, f"{path}.{k}" if path else k)
            if d:
                return d
        return None
    if isinstance(want, list):
        if not isinstance(got, list) or isinstance(got, Pairs):
            return (path, encode(want)[:200], encode(got)[:200])
        if len(want) != len(got):
            return (path + "[len]", encode(want)[:300], encode(got)[:300])
        for i, (a, b) in enumerate(zip(want, got)):
            d = first_difference(a, b, f"{path}[{i+1}]")
            if d:
                return d
        return None
    if type(want) is not type(got) or want != got:
        return (path, encode(want), encode(got))
    return None


ANY = object()      # flat-mode expectation that is not judged (JSON null in a non-JSON writer)


def flatten_field(name, v, sep, out):
    """flatten-unflatten.md: keys joined with the separator, arrays by 1-up position, empty map/array as the
    strings {} and []."""
    if isinstance(v, Pairs):
        if not v:
            out.append((name, "{}"))
        for k, x in v:
            flatten_field(name + sep + k, x, sep, out)
    elif isinstance(v, list):
        if not v:
            out.append((name, "[]"))
        for i, x in enumerate(v):
            flatten_field(name + sep + str(i + 1), x, sep, out)
    elif v is True:
        out.append((name, "true"))
    elif v is False:
        out.append((name, "false"))
    elif v is None:
        out.append((name, ANY))
    else:
        out.append((name, str(v)))


def flatten_record(rec, sep):
    out = []
    for k, v in rec:
        flatten_field(k, v, sep, out)
    return out


# ------------------------------------------------------------------------------------------
# generator

NUM_TOKENS = ["3", "1", "2", "16.50", "1e1", "1.500", "0.10", "1E5", "-0.0", "-0", "1e-5", "100.0", "1E+00", "0e0", "7", "-4", "10",
              "2.0", "0.5", "5", "12", "1.10", "6.02E23", "0.30000000000000004", "123456789012345678901234567890",
              "9223372036854775807", "9223372036854775808", "-1.5e0", "4.9e-324", "0", "0.0", "42", "-7.25", "8.0e0"]
STR_TOKENS = ["b", "a", "C", "", "0xFF", "+5", "007", "1_000", "abc", "é", "x y", "a\"q", "z\\n", "true", "Inf", "-", "1e5", "0b11", " 7"]
KEYS = ["b", "a", "c", "z", "y", "k1", "k10", "k2", "q", "p", "x", "B", "n", "m", "e", "f", "g", "h", "i", "j"]


def _nums(rng, n):
    return [Num(rng.choice(NUM_TOKENS)) for _ in range(n)]


def _scalar(rng):
    r = rng.random()
    if r < 0.6:
        return Num(rng.choice(NUM_TOKENS))
    if r < 0.9:
        return rng.choice(STR_TOKENS)
    return rng.choice([True, False, None])


def _value(rng, depth):
    r = rng.random()
    if depth <= 0 or r < 0.55:
        return _scalar(rng)
    if r < 0.8:
        return [_value(rng, depth - 1) for _ in range(rng.choice([0, 1, 2, 3, 4]))]
    return _map(rng, depth - 1, rng.choice([0, 1, 2, 3]))


def _map(rng, depth, n, intkeys=False, dotted=False):
    if intkeys:
        ks = [str(i + 1) for i in range(n)]
    else:
        ks = rng.sample(KEYS, min(n, len(KEYS)))
        if n > len(KEYS):
            ks += [f"w{i}" for i in range(n - len(KEYS))]
    out = Pairs()
    for k in ks:
        out.append((k, _value(rng, depth)))
    if dotted and out:
        # a key containing the flatten separator next to a map of the same stem: unflatten/flatten territory
        stem = out[0][0]
        out.append((stem + ".2", _scalar(rng)))
    return out


def records(rng, flat_safe):
    """A dozen-odd records {id, s, t, a, m, z}: `a` an array, `m` a map - unsorted, with non-canonical number tokens,
    reaching the lengths where sort routines and the map key index change strategy (12 / 13 / 50 / 51)."""
    A = [
        [], _nums(rng, 1), [Num("3"), Num("1"), Num("2")], [Num("3"), Num("1"), Num("2"), Num("16.50"), Num("1e1")],
        _nums(rng, 11), _nums(rng, 12), _nums(rng, 13), _nums(rng, 51),
        [Num("3"), "b", Num("1.50"), "A", True, None, Pairs([("q", [Num("2"), Num("1")])]), [Num("9"), Num("8.50")], ""],
        ["b", "a", "C", "a10", "a2", ""],
        [[Num("2"), Num("1")], [Num("1.0"), Num("0.5")], []],
        [Pairs([("k", Num("2")), ("j", Num("1.50"))]), Pairs([("k", Num("1"))]), Pairs()],
        [_value(rng, 2) for _ in range(rng.randint(2, 6))],
        _nums(rng, rng.randint(2, 9)),
    ]
    M = [
        Pairs(), Pairs([("b", Num("2.50")), ("a", Num("1e0")), ("c", Num("-3"))]),
        Pairs([("x", Pairs([("1", "a")])), ("x.2", "b")]),
        Pairs([("a", Pairs([("1", "p"), ("2", "q")])), ("b", Num("3"))]),
        Pairs([("1", Num("2.0")), ("2", Num("1")), ("3", Pairs([("1", Num("0.10")), ("2", "s")]))]),
        _map(rng, 0, 11), _map(rng, 0, 12), _map(rng, 0, 13), _map(rng, 1, 24),
        Pairs([("p", [Num("3"), Num("1"), Num("2")]), ("q", []), ("r", Pairs())]),
        Pairs([("d", Pairs([("e", Pairs([("f", [Num("1.0"), Pairs([("g", Num("0.10"))])])]))]))]),
        _map(rng, 2, 4, dotted=True), _map(rng, 2, 3, intkeys=True), _map(rng, 1, rng.randint(1, 6)),
    ]
    rng.shuffle(A)
    rng.shuffle(M)
    out = []
    for i in range(max(len(A), len(M))):
        rec = Pairs([("id", f"r{i+1}"), ("s", Num(rng.choice(NUM_TOKENS))), ("t", rng.choice(STR_TOKENS)),
                     ("a", A[i % len(A)]), ("m", M[i % len(M)]), ("z", "end")])
        out.append(rec)
    if flat_safe:
        out = [_flat_safe(r) for r in out]
    return out


def _flat_safe(v):
    """Strings that the flat (DKVP) writer can carry: no separator characters."""
    if isinstance(v, Pairs):
        return Pairs((k, _flat_safe(x)) for k, x in v)
    if isinstance(v, list):
        return [_flat_safe(x) for x in v]
    if type(v) is str:
        return v.replace(",", ";").replace("\n", " ")
    return v
