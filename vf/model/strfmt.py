"""Reference models for C15, written from Miller's documentation (function help,
reference-main-strings.md, reference-main-regular-expressions.md,
reference-main-number-formatting.md, reference-verbs.md) on top of Python's
str / re / hashlib / base64 / %-formatting.  Nothing here is derived from
Miller's Go sources.

Every model returns either a Python value (str, int, bool, list, dict), the
sentinel ABSENT / ERROR, or DECLINE when the arguments are outside the domain the
documentation defines (the caller counts those as skipped, never as held)."""
import re


class _Sentinel:
    def __init__(self, name):
        self.name = name

    def __repr__(self):
        return self.name


ABSENT = _Sentinel("ABSENT")
ERROR = _Sentinel("ERROR")
DECLINE = _Sentinel("DECLINE")

MASK64 = (1 << 64) - 1


# ==========================================================================================
# character functions

def is_ws_simple(s):
    """Domain predicate of the whitespace functions: the docs say "whitespace" without
    defining it; space and tab are whitespace under every reading, so the model only
    speaks when those are the only whitespace-like characters in the string."""
    for ch in s:
        if ch in " \t":
            continue
        if ch.isspace() or ch in "\x0b\x0c\x1c\x1d\x1e\x1f\x85\u200b\ufeff\u180e":
            return False
    return True


def lstrip(s):
    return s.lstrip(" \t") if is_ws_simple(s) else DECLINE


def rstrip(s):
    return s.rstrip(" \t") if is_ws_simple(s) else DECLINE


def strip(s):
    return s.strip(" \t") if is_ws_simple(s) else DECLINE


def collapse_whitespace(s):
    """"Strip repeated whitespace": runs of whitespace become one space (the verb
    clean-whitespace: "replacing multiple whitespace with singles")."""
    if not is_ws_simple(s):
        return DECLINE
    if "\t" in s:
        # a run containing a tab: the docs do not say whether the single survivor is a
        # space or the run's first character
        return DECLINE
    return re.sub(" +", " ", s)


def clean_whitespace(s):
    c = collapse_whitespace(s)
    if c is DECLINE:
        return DECLINE
    return c.strip(" ")


def simple_upper(ch):
    u = ch.upper()
    return u if len(u) == 1 else None


def simple_lower(ch):
    u = ch.lower()
    return u if len(u) == 1 else None


# characters whose one-to-one mapping differs between the Unicode simple mapping (what a
# per-code-point mapper uses) and Python's full mapping, or which are context dependent
_CASE_EXCLUDE = set("Σςİıẞßͅ")


def case_map(s, which):
    out = []
    for ch in s:
        if ch in _CASE_EXCLUDE:
            return DECLINE
        m = simple_upper(ch) if which == "upper" else simple_lower(ch)
        if m is None:
            return DECLINE
        # title-case digraphs (U+01C5 ...) and code points whose upper->lower does not
        # come back are where simple and full mappings disagree: stay on round-trippers
        out.append(m)
    return "".join(out)


def toupper(s):
    return case_map(s, "upper")


def tolower(s):
    return case_map(s, "lower")


def capitalize(s):
    if s == "":
        return ""
    h = case_map(s[0], "upper")
    if h is DECLINE:
        return DECLINE
    return h + s[1:]


def truncate(s, n):
    if n < 0:
        return DECLINE          # "max length" < 0 is not defined by the docs
    return s[:n]


def _pad_count(s, n, pad):
    if pad == "":
        return None
    room = n - len(s)
    if room <= 0:
        return 0
    return room // len(pad)     # "to at most the specified length"; leftpad("abcdefg",10,"XY") = "XYabcdefg"


def leftpad(s, n, pad):
    k = _pad_count(s, n, pad)
    if k is None:
        return s                # nothing can be added with an empty pad
    return pad * k + s


def rightpad(s, n, pad):
    k = _pad_count(s, n, pad)
    if k is None:
        return s
    return s + pad * k


def slice1(s, lo, hi):
    """s[lo:hi], 1-up, inclusive, negative aliasing -n..-1 -> 1..n, out-of-bounds slice
    indices are trimmed (reference-main-strings.md "Out-of-bounds indexing")."""
    n = len(s)
    if lo < 0:
        lo += n + 1
    if hi < 0:
        hi += n + 1
    lo = max(lo, 1)
    hi = min(hi, n)
    if lo > hi:
        return ""
    return s[lo - 1:hi]


def substr1(s, m, n):
    return slice1(s, m, n)


def substr0(s, m, n):
    """0-up positions m..n inclusive; negative indices -len..-1 alias to 0..len-1."""
    ln = len(s)
    if m < 0:
        m += ln
    if n < 0:
        n += ln
    m = max(m, 0)
    n = min(n, ln - 1)
    if m > n:
        return ""
    return s[m:n + 1]


def index1(s, m):
    """s[m]: out-of-bounds index accesses are errors; 0 is never valid."""
    n = len(s)
    if 1 <= m <= n:
        return s[m - 1]
    if -n <= m <= -1:
        return s[m + n]
    return ERROR


def index_of(s, t):
    i = s.find(t)
    return -1 if i < 0 else i + 1


def fmt_placeholders(fmt, args):
    """format(): "{}" sequential, "{n}" positional 1-up, too few -> empty, "{0}" -> error."""
    out = []
    i = 0
    seq = 0
    n = len(fmt)
    while i < n:
        if fmt[i] == "{":
            j = fmt.find("}", i)
            if j > 0:
                inner = fmt[i + 1:j]
                if inner == "":
                    out.append(args[seq] if seq < len(args) else "")
                    seq += 1
                    i = j + 1
                    continue
                if inner.isdigit() and inner.isascii():
                    k = int(inner)
                    if k == 0:
                        return ERROR
                    out.append(args[k - 1] if k <= len(args) else "")
                    i = j + 1
                    continue
                return DECLINE   # "{abc}" is not described
            return DECLINE
        if fmt[i] == "}":
            return DECLINE
        out.append(fmt[i])
        i += 1
    return "".join(out)


# ==========================================================================================
# printf

FMT_RE = re.compile(r"^([^%]*)%([-+ 0#]*)(\d*)(?:\.(\d*))?(_?)(ll|l)?([a-zA-Z])([^%]*)$")


def parse_format(fmt):
    m = FMT_RE.match(fmt)
    if not m:
        return None
    pre, flags, width, prec, sep, ell, verb, post = m.groups()
    return {"pre": pre, "flags": flags, "width": width, "prec": prec, "sep": sep, "ell": ell or "",
            "verb": verb, "post": post}


def _pad(body, sign_len, flags, width, zero_ok):
    w = int(width) if width else 0
    if len(body) >= w:
        return body
    if "-" in flags:
        return body + " " * (w - len(body))
    if "0" in flags and zero_ok:
        return body[:sign_len] + "0" * (w - len(body)) + body[sign_len:]
    return " " * (w - len(body)) + body


def c_printf(p, val):
    """Render one number as C printf would.  p = parse_format(...) dict; val int or float.
    int given to a float verb is converted to double; float given to an int verb is
    converted as a C cast (truncation toward zero).  Negative ints under x X o b are the
    64-bit two's complement (the documented behaviour of hexfmt, and what C does for
    unsigned conversions).  Returns the string, or DECLINE outside the shared domain."""
    verb, flags, width, prec = p["verb"], p["flags"], p["width"], p["prec"]
    if p["sep"]:
        return DECLINE
    if verb in "dxXob":
        if isinstance(val, float):
            if val != val or val in (float("inf"), float("-inf")):
                return DECLINE
            if abs(val) >= 2 ** 63:
                return DECLINE       # cast out of range is undefined in C
            val = int(val)
        sign = ""
        if verb == "d":
            if "#" in flags:
                return DECLINE
            if val < 0:
                sign, val = "-", -val
            elif "+" in flags:
                sign = "+"
            elif " " in flags:
                sign = " "
            digits = str(val)
        else:
            if "+" in flags or " " in flags:
                return DECLINE       # sign flags on unsigned conversions are undefined in C
            val &= MASK64
            if "#" in flags and (val == 0 or verb in "bX" or prec is not None or ("0" in flags and width)):
                return DECLINE       # C counts the 0x prefix inside the zero-padded width, Go's fmt does not
            digits = {"x": "%x", "X": "%X", "o": "%o"}[verb] % val if verb != "b" else bin(val)[2:]
        if prec is not None:
            pn = int(prec or 0)
            if pn == 0 and val == 0:
                digits = ""          # C: "a zero value with a precision of zero is no characters"
                if sign in ("+", " "):
                    return DECLINE   # C still prints the sign, Go's fmt (cited by the docs) prints nothing
            digits = digits.rjust(pn, "0")
        if "#" in flags:
            sign = {"x": "0x", "o": "0"}[verb]
        # C: for integer conversions the 0 flag is ignored when a precision is given
        body = _pad(sign + digits, len(sign), flags, width, prec is None)
    elif verb in "eEfFgG":
        if "#" in flags:
            return DECLINE
        if isinstance(val, int):
            val = float(val)
        if val != val or val in (float("inf"), float("-inf")):
            return DECLINE           # C prints inf/nan, Go +Inf/NaN: outside the shared domain
        if verb in "gG" and prec is None:
            return DECLINE           # default %g precision: C says 6, Go's fmt (cited by the docs) says shortest
        spec = "%" + flags + width + ("." + prec if prec is not None else "") + verb
        body = spec % val
    else:
        return DECLINE
    return p["pre"] + body + p["post"]


def sep_printf(p, val):
    """Miller-specific %_d / %_f: "comma-separated thousands" (LANG unset -> en)."""
    verb, flags, width, prec = p["verb"], p["flags"], p["width"], p["prec"]
    if flags not in ("",) or verb not in "df":
        return DECLINE
    if verb == "d":
        if isinstance(val, float):
            if val != val or abs(val) >= 2 ** 63:
                return DECLINE
            val = int(val)
        if prec is not None:
            return DECLINE
        body = format(val, ",d")
    else:
        val = float(val)
        if val != val or val in (float("inf"), float("-inf")):
            return DECLINE
        body = format(val, ",." + (prec if prec else "6" if prec is None else "0") + "f")
        if body.startswith("-") and not body.strip("-0.,"):
            return DECLINE           # sign of a negative value that rounds to zero: not described for the Miller-specific %_f
    w = int(width) if width else 0
    return p["pre"] + body.rjust(w) + p["post"]


def parse_number(text):
    """The number a data field spells, for the clear-cut spellings the generator emits:
    decimal / 0x / 0b / 0o ints with optional '-', decimal floats with '.', exponent.
    Returns int, float or None."""
    t = text
    neg = t.startswith("-")
    u = t[1:] if neg else t
    try:
        if re.fullmatch(r"0x[0-9a-fA-F]+", u):
            v = int(u, 16)
        elif re.fullmatch(r"0b[01]+", u):
            v = int(u, 2)
        elif re.fullmatch(r"0o[0-7]+", u):
            v = int(u, 8)
        elif re.fullmatch(r"(0|[1-9][0-9]*)", u):
            v = int(u)
        elif re.fullmatch(r"([0-9]+\.[0-9]*|\.[0-9]+|[0-9]+)([eE][-+]?[0-9]+)?", u):
            return float(t)
        else:
            return None
    except ValueError:
        return None
    v = -v if neg else v
    if not (-2 ** 63 <= v <= 2 ** 63 - 1):
        return None
    return v


def hexfmt(val):
    if isinstance(val, int):
        return "0x%x" % (val & MASK64)
    return DECLINE


# ==========================================================================================
# regex generator over the shared RE2 / Python subset.  A pattern is an AST rendered twice.

LIT_ALPHA = list("abcabcxyzABX012 _-:") + ["é", "É", "ö", "日", "д", "😀", ".", "+", "(", "[", "?", "*", "|", "$", "^"]
SUBJ_ALPHA = list("abcabcxyzABX012  _-:") + ["é", "É", "ö", "日", "д", "😀", ".", "+", "("]
CLS_ATOMS = ["a", "b", "c", "x", "z", "A", "B", "0", "1", "2", "_", " ", "é", "ö", "日"]
CLS_RANGES = [("a", "c"), ("a", "z"), ("A", "Z"), ("0", "9"), ("x", "z"), ("à", "ö"), ("0", "2")]
META = set("\\.^$|?*+()[]{}")


class Rx:
    __slots__ = ("kind", "a", "b", "c", "d")

    def __init__(self, kind, a=None, b=None, c=None, d=None):
        self.kind, self.a, self.b, self.c, self.d = kind, a, b, c, d


def rx_min_len(n):
    k = n.kind
    if k in ("lit", "dot", "cls", "perl"):
        return 1
    if k in ("bol", "eol"):
        return 0
    if k == "cat":
        return sum(rx_min_len(x) for x in n.a)
    if k == "alt":
        return min(rx_min_len(x) for x in n.a)
    if k == "grp":
        return rx_min_len(n.a)
    if k == "rep":
        return rx_min_len(n.a) * n.b
    if k == "empty":
        return 0
    raise ValueError(k)


def rx_ngroups(n):
    k = n.kind
    if k in ("cat", "alt"):
        return sum(rx_ngroups(x) for x in n.a)
    if k == "grp":
        return (1 if n.b else 0) + rx_ngroups(n.a)
    if k == "rep":
        return rx_ngroups(n.a)
    return 0


def rx_has_alt(n):
    k = n.kind
    if k == "alt":
        return True
    if k == "cat":
        return any(rx_has_alt(x) for x in n.a)
    if k in ("grp", "rep"):
        return rx_has_alt(n.a)
    return False


def rx_has_anchor(n):
    k = n.kind
    if k in ("bol", "eol"):
        return True
    if k in ("cat", "alt"):
        return any(rx_has_anchor(x) for x in n.a)
    if k in ("grp", "rep"):
        return rx_has_anchor(n.a)
    return False


def _esc(ch):
    return "\\" + ch if ch in META else ch


def rx_render(n, py, safe=False):
    """safe: spell the literals | and ? as one-character classes (Miller's DSL lexer does not
    accept the escapes \\| \\? inside a "..." literal, so the literal channel avoids them)."""
    k = n.kind
    if k == "lit":
        if safe and n.a in "|?":
            return "[" + n.a + "]"
        return _esc(n.a)
    if k == "dot":
        return "."
    if k == "bol":
        return "^"
    if k == "eol":
        return "$"
    if k == "empty":
        return ""
    if k == "perl":
        if not py:
            return "\\" + n.a
        return {"d": "[0-9]", "w": "[0-9A-Za-z_]", "s": "[\\t\\n\\f\\r ]",
                "D": "[^0-9]", "W": "[^0-9A-Za-z_]", "S": "[^\\t\\n\\f\\r ]"}[n.a]
    if k == "cls":
        body = "".join(x if isinstance(x, str) else x[0] + "-" + x[1] for x in n.b)
        return "[" + ("^" if n.a else "") + body + "]"
    if k == "cat":
        return "".join(rx_render(x, py, safe) for x in n.a)
    if k == "alt":
        return "|".join(rx_render(x, py, safe) for x in n.a)
    if k == "grp":
        return ("(" if n.b else "(?:") + rx_render(n.a, py, safe) + ")"
    if k == "rep":
        inner = rx_render(n.a, py, safe)
        if n.a.kind in ("cat", "alt", "rep") or (n.a.kind == "cat" and len(n.a.a) != 1):
            inner = "(?:" + inner + ")"
        lo, hi, lazy, style = n.b, n.c, n.d[0], n.d[1]
        if style == "sym":
            q = {(0, None): "*", (1, None): "+", (0, 1): "?"}[(lo, hi)]
        elif hi is None:
            q = "{%d,}" % lo
        elif hi == lo and style == "exact":
            q = "{%d}" % lo
        else:
            q = "{%d,%d}" % (lo, hi)
        return inner + q + ("?" if lazy else "")
    raise ValueError(k)


def rx_gen(rng, depth=0, budget=None):
    """Random AST. Invariants: a quantified body never matches the empty string (engines
    differ on empty iterations); <= 9 capturing groups is enforced by the caller."""
    if budget is None:
        budget = [rng.randint(2, 7)]

    def atom():
        r = rng.random()
        if r < 0.50:
            return Rx("lit", rng.choice(LIT_ALPHA))
        if r < 0.62:
            return Rx("dot")
        if r < 0.85:
            items = []
            for _ in range(rng.randint(1, 3)):
                items.append(rng.choice(CLS_RANGES) if rng.random() < 0.45 else rng.choice(CLS_ATOMS))
            return Rx("cls", rng.random() < 0.25, items)
        return Rx("perl", rng.choice("dddwwsDWS"))

    def piece(d):
        budget[0] -= 1
        r = rng.random()
        if d < 3 and r < 0.30:
            inner = seq(d + 1) if rng.random() < 0.6 else alt(d + 1)
            node = Rx("grp", inner, rng.random() < 0.75)
        else:
            node = atom()
        if rng.random() < 0.40 and rx_min_len(node) >= 1:
            lazy = rng.random() < 0.25
            c = rng.random()
            if c < 0.6:
                lo, hi = rng.choice([(0, None), (1, None), (0, 1)])
                node = Rx("rep", node, lo, hi, (lazy, "sym"))
            elif c < 0.75:
                lo = rng.randint(0, 3)
                node = Rx("rep", node, lo, lo, (lazy, "exact"))
            elif c < 0.9:
                lo = rng.randint(0, 3)
                hi = rng.randint(max(lo, 1), 6)
                node = Rx("rep", node, lo, hi, (lazy, "range"))
            else:
                node = Rx("rep", node, rng.randint(0, 2), None, (lazy, "open"))
        return node

    def seq(d):
        n = rng.randint(1, 3)
        items = [piece(d) for _ in range(n) if budget[0] > 0 or _ == 0]
        return Rx("cat", items)

    def alt(d):
        n = rng.randint(2, 3)
        return Rx("alt", [seq(d) for _ in range(n)])

    top = alt(depth) if rng.random() < 0.2 else seq(depth)
    while budget[0] > 0 and rng.random() < 0.7:
        top = Rx("cat", [top if top.kind != "alt" else Rx("grp", top, rng.random() < 0.5), piece(depth)])
    if rng.random() < 0.15:
        top = Rx("cat", [Rx("bol"), top if top.kind != "alt" else Rx("grp", top, False)])
    if rng.random() < 0.15:
        top = Rx("cat", [top if top.kind != "alt" else Rx("grp", top, False), Rx("eol")])
    return top


def rx_sample(n, rng):
    """A string the pattern is likely to match (not guaranteed for negated classes / anchors)."""
    k = n.kind
    if k == "lit":
        return n.a
    if k == "dot":
        return rng.choice(SUBJ_ALPHA)
    if k in ("bol", "eol", "empty"):
        return ""
    if k == "perl":
        pool = {"d": "0127", "w": "abx0_B", "s": " ", "D": "ab é", "W": " -:é", "S": "abé0"}[n.a]
        return pool[rng.randrange(len(pool))]
    if k == "cls":
        if n.a:
            return rng.choice(SUBJ_ALPHA)
        it = rng.choice(n.b)
        if isinstance(it, str):
            return it
        return chr(rng.randint(ord(it[0]), ord(it[1])))
    if k == "cat":
        return "".join(rx_sample(x, rng) for x in n.a)
    if k == "alt":
        return rx_sample(rng.choice(n.a), rng)
    if k == "grp":
        return rx_sample(n.a, rng)
    if k == "rep":
        hi = n.c if n.c is not None else n.b + 3
        return "".join(rx_sample(n.a, rng) for _ in range(rng.randint(n.b, hi)))
    raise ValueError(k)


def expand_repl(repl, m, ngroups):
    """Miller's replacement language: \\0 whole match, \\1..\\9 groups ("\\15" = \\1 then "5").
    A reference to a group the pattern does not have is not described -> DECLINE."""
    out = []
    i = 0
    while i < len(repl):
        if repl[i] == "\\" and i + 1 < len(repl) and repl[i + 1] in "0123456789":
            g = int(repl[i + 1])
            if g > ngroups:
                return DECLINE
            v = m.group(g)
            out.append(v if v is not None else "")
            i += 2
            continue
        out.append(repl[i])
        i += 1
    return "".join(out)


# ==========================================================================================
# Go's replace-all iteration rule (the docs name Go's regexp library as the engine; its
# documented rule for ReplaceAll: matches are found left to right, an empty match adjacent to
# the preceding match is not replaced, after an empty match the search advances by one
# CHARACTER).  Python's re.sub differs exactly there (since 3.7 it does replace an empty match
# adjacent to a preceding non-empty one), so the rule is spelled out here on top of rx.search.

def go_replace_all(rx, s, repl_fn, count=None):
    """rx: compiled Python pattern; repl_fn(match) -> str | DECLINE.  count=1 -> first match only."""
    out = []
    last = 0
    pos = 0
    n = len(s)
    done = 0
    while pos <= n:
        m = rx.search(s, pos)
        if m is None:
            break
        a0, a1 = m.span()
        out.append(s[last:a0])
        if a1 > last or a0 == 0:
            e = repl_fn(m)
            if e is DECLINE:
                return DECLINE
            out.append(e)
            done += 1
        last = a1
        if count is not None and done >= count:
            break
        pos = pos + 1 if pos + 1 > a1 else a1
    out.append(s[last:])
    return "".join(out)


def c_unescape(t):
    """The C-style backslash escapes the sub/gsub/ssub verb usage documents for its string
    arguments ("such as \\n, \\t, and \\x1f. Write \\\\ to get a literal backslash").  Anything
    else after a backslash is outside what the usage text defines -> DECLINE, except a backslash
    followed by a digit (the \\0..\\9 capture references of the replacement language), kept."""
    out = []
    i = 0
    while i < len(t):
        ch = t[i]
        if ch != "\\":
            out.append(ch)
            i += 1
            continue
        if i + 1 >= len(t):
            return DECLINE
        nx = t[i + 1]
        if nx in "nt\\":
            out.append({"n": "\n", "t": "\t", "\\": "\\"}[nx])
            i += 2
        elif nx == "x" and re.fullmatch(r"[0-9a-fA-F]{2}", t[i + 2:i + 4]) and int(t[i + 2:i + 4], 16) < 0x80:
            out.append(chr(int(t[i + 2:i + 4], 16)))
            i += 4
        elif nx in "0123456789":
            out.append(ch + nx)
            i += 2
        else:
            return DECLINE
    return "".join(out)


# ==========================================================================================
# hostile regex pool: backslash sequences that are regex syntax (and look like C escapes),
# anchors, POSIX / Perl / Unicode classes, flags, quoting, empty-matching pieces.  Each atom is
# (Go spelling, Python spelling or None when Python has no equivalent, capture groups, can it
# match the empty string, sample subject pieces).  The Python spellings use explicit ASCII
# classes for \d \w \s \b (RE2's are ASCII-only) and \Z for Go's $ / \z (Python's $ also matches
# before a trailing newline).

_W = "0-9A-Za-z_"
PY_WB = "(?:(?<![%s])(?=[%s])|(?<=[%s])(?![%s]))" % (_W, _W, _W, _W)
PY_NWB = "(?:(?<![%s])(?![%s])|(?<=[%s])(?=[%s]))" % (_W, _W, _W, _W)

_SAME = object()


def _atoms():
    A = []

    def add(go, py, groups=0, empty=False, samples=()):
        A.append((go, go if py is _SAME else py, groups, empty, list(samples)))

    # word boundaries
    add("\\b", PY_WB, 0, True, ["cat", " ", "é"])
    add("\\B", PY_NWB, 0, True, ["concat", "  "])
    add("\\bcat\\b", PY_WB + "cat" + PY_WB, 0, False, ["cat", "concat", "cat cat", "bobcat", "cat.", "catécat", "ca\x08t"])
    add("\\bcat", PY_WB + "cat", 0, False, ["cat", "concat", "bobcat cat", "\x08cat"])
    add("t\\b", "t" + PY_WB, 0, False, ["cat", "cats", "t\x08"])
    add("\\b\\w+\\b", PY_WB + "[%s]+" % _W + PY_WB, 0, False, ["cat dog", "a_1-b"])
    add("o\\Bn", "o" + PY_NWB + "n", 0, False, ["on", "concat"])
    # the escaped backslash
    add("\\\\", _SAME, 0, False, ["\\", "a\\b", "C:\\tmp", "\\\\"])
    add("C:\\\\tmp", _SAME, 0, False, ["C:\\tmp", "C:\tmp", "C:tmp"])
    add("a\\\\b", _SAME, 0, False, ["a\\b", "ab", "a\x08", "a b"])
    add("\\\\d", _SAME, 0, False, ["\\d", "5", "\\5"])
    add("\\\\\\\\", _SAME, 0, False, ["\\\\", "\\", "\\\\\\"])
    add("\\\\.", _SAME, 0, False, ["\\x", "\\.", ".", "x"])
    add("\\\\n", _SAME, 0, False, ["\\n", "n", "a\\nb"])
    add("\\\\?x", _SAME, 0, False, ["\\x", "x", "?x"])
    add("[\\\\]", _SAME, 0, False, ["\\", "a\\b"])
    add("[^\\\\]", _SAME, 0, False, ["\\", "a\\b"])
    add("[\\\\/]+", _SAME, 0, False, ["a/b", "a\\b", "\\/\\"])
    # escaped metacharacters
    for ch, smp in (("?", ["?", "a?b", "ok?"]), ("|", ["|", "a|b"]), ("{", ["{", "a{2}"]), ("}", ["}", "{}"]),
                    (".", [".", "x.y", "xzy"]), ("*", ["*", "a*"]), ("+", ["+", "a+b"]), ("(", ["(", "f(x)"]),
                    (")", [")", "f(x)"]), ("[", ["[", "a[1]"]), ("]", ["]", "a[1]"]), ("^", ["^", "a^b"]), ("$", ["$", "a$"])):
        add("\\" + ch, _SAME, 0, False, smp)
    add("k\\?", _SAME, 0, False, ["k?", "kk", "k", "?"])
    add("ok\\?", _SAME, 0, False, ["ok?", "ok", "o", "no ok"])
    add("a\\|b", _SAME, 0, False, ["a|b", "a", "b"])
    add("x\\.y", _SAME, 0, False, ["x.y", "xzy"])
    # hex / octal escapes, of metacharacters and of ordinary characters
    for code, smp in ((0x2e, [".", "x.y", "xzy"]), (0x5c, ["\\", "a\\b"]), (0x3f, ["?", "a?"]), (0x2a, ["*", "a*"]),
                      (0x7c, ["|", "a|b"]), (0x28, ["(", "(a"]), (0x29, [")", "a)"]), (0x5b, ["[", "[a"]), (0x24, ["$", "a$"]),
                      (0x5e, ["^", "^a"]), (0x2b, ["+", "a+"]), (0x41, ["A", "a"]), (0x20, [" ", "a b"]), (0x09, ["\t", "t"]),
                      (0x7b, ["{", "{}"])):
        add("\\x%02x" % code, _SAME, 0, False, smp)
        add("\\%03o" % code, _SAME, 0, False, smp)
    add("\\x{2e}", "\\x2e", 0, False, [".", "x.y", "xzy"])
    add("\\x{e9}", "\\u00e9", 0, False, ["é", "e", "É"])
    add("\\x{1F600}", "\\U0001F600", 0, False, ["😀", "x"])
    add("x\\x2ey", _SAME, 0, False, ["x.y", "xzy"])
    add("a\\052", _SAME, 0, False, ["a*", "aaa", "b"])
    add("[\\x2e\\x5c]", _SAME, 0, False, [".", "\\", "x"])
    # C escapes that mean the same to the regex engine
    for e, c in (("\\t", "\t"), ("\\n", "\n"), ("\\r", "\r"), ("\\f", "\f"), ("\\v", "\v"), ("\\a", "\a")):
        add(e, _SAME, 0, False, [c, "a" + c + "b", e[1]])
    # Perl classes, POSIX classes, Unicode classes
    add("\\d", "[0-9]", 0, False, ["5", "a1", "d"])
    add("\\d+", "[0-9]+", 0, False, ["55", "a12b3", "d"])
    add("\\w+", "[%s]+" % _W, 0, False, ["cat", "a_1", "é"])
    add("\\s", "[\\t\\n\\f\\r ]", 0, False, [" ", "\t", "a b", "s"])
    add("\\D", "[^0-9]", 0, False, ["5", "a1"])
    add("\\W", "[^%s]" % _W, 0, False, ["-", "é", "a"])
    add("\\S+", "[^\\t\\n\\f\\r ]+", 0, False, ["a b", " x "])
    add("[\\d\\-x]", "[0-9\\-x]", 0, False, ["1-x", "d"])
    add("[^\\s\\d]", "[^\\t\\n\\f\\r 0-9]", 0, False, ["a 1", "é"])
    for nm, cls in (("alpha", "A-Za-z"), ("digit", "0-9"), ("upper", "A-Z"), ("lower", "a-z"), ("alnum", "0-9A-Za-z"),
                    ("space", "\\t\\n\\v\\f\\r "), ("punct", "!-/:-@\\[-`{-~"), ("word", _W), ("xdigit", "0-9A-Fa-f")):
        add("[[:%s:]]" % nm, "[%s]" % cls, 0, False, ["aB1", " -_", "é.", "\t"])
        add("[[:^%s:]]+" % nm, "[^%s]+" % cls, 0, False, ["aB1", " -_", "é."])
    add("[[:alpha:][:digit:]_]+", "[A-Za-z0-9_]+", 0, False, ["a_1 b", "é"])
    add("\\pL", None, 0, False, ["aé日", "1"])
    add("\\p{Lu}", None, 0, False, ["aÉB", "x"])
    add("\\PL+", None, 0, False, ["a1-é", "x"])
    add("\\p{Greek}", None, 0, False, ["αβ", "a"])
    # classes with escapes inside
    add("[\\]]", _SAME, 0, False, ["]", "a]"])
    add("[\\^a]", _SAME, 0, False, ["^", "a", "b"])
    add("[a\\-c]", _SAME, 0, False, ["a", "-", "b", "c"])
    add("[.?*]", _SAME, 0, False, [".", "?", "*", "x"])
    add("[\\t ]+", _SAME, 0, False, [" \t ", "a b"])
    add("[^a-z]", _SAME, 0, False, ["aBc", "é"])
    add("[é日]", _SAME, 0, False, ["é", "日本", "e"])
    # anchors
    add("^", _SAME, 0, True, ["a", ""])
    add("$", "\\Z", 0, True, ["a", ""])
    add("^$", "^\\Z", 0, True, ["", "a"])
    add("\\A", _SAME, 0, True, ["a"])
    add("\\z", "\\Z", 0, True, ["a"])
    add("^a", _SAME, 0, False, ["ab", "ba", "aa"])
    add("a$", "a\\Z", 0, False, ["ba", "ab", "aa"])
    add("^.", _SAME, 0, False, ["é", "ab"])
    add(".$", ".\\Z", 0, False, ["aé", "ab"])
    # flags, quoting, named groups
    add("(?i:cat)", _SAME, 0, False, ["CAT", "Cat", "cat", "cot"])
    add("(?i:é)", _SAME, 0, False, ["É", "é", "e"])
    add("(?s:.)", _SAME, 0, False, ["a", "\n"])
    add("(?U:a+)", "a+?", 0, False, ["aaa", "ba"])
    add("(?U:a+?)", "a+", 0, False, ["aaa", "ba"])
    add("\\Qa.b\\E", "a\\.b", 0, False, ["a.b", "axb"])
    add("\\Q?\\E", "\\?", 0, False, ["?", "a?"])
    add("\\Q(x)\\E", "\\(x\\)", 0, False, ["(x)", "x"])
    add("(?P<w>[a-c]+)", _SAME, 1, False, ["abc", "cab", "x"])
    # groups, alternation, quantifiers
    add("(cat|dog)", _SAME, 1, False, ["cat", "dog", "cot"])
    add("(c)(a)(t)", _SAME, 3, False, ["cat", "ct"])
    add("(a)|b", _SAME, 1, False, ["a", "b", "ab"])
    add("(ab)+", _SAME, 1, False, ["abab", "aba"])
    add("(?:ab)*c", _SAME, 0, False, ["ababc", "c", "ab"])
    add("a{2}", _SAME, 0, False, ["aaa", "aaaa", "a"])
    add("a{1,}", _SAME, 0, False, ["aaa", "ba"])
    add("a{,2}", "a\\{,2\\}", 0, False, ["a{,2}", "aa"])
    add("[a-c]{2,3}?", _SAME, 0, False, ["abcab", "a"])
    add(".", _SAME, 0, False, ["a", "é", "😀"])
    add(".+", _SAME, 0, False, ["a b", "é"])
    add("([a-z]+)-([0-9]+)", _SAME, 2, False, ["ab-12", "x-1 y-2", "ab12"])
    add("(.)(.)", _SAME, 2, False, ["ab", "é日", "a"])
    add("cat", _SAME, 0, False, ["cat", "concat", "Cat"])
    add("é", _SAME, 0, False, ["é", "e\u0301", "É"])
    add("日本", _SAME, 0, False, ["日本語", "日"])
    # pieces that can match the empty string
    add("x*", _SAME, 0, True, ["xx", "axb", "é"])
    add("a?", _SAME, 0, True, ["aa", "ba", "日"])
    add(".*", _SAME, 0, True, ["ab", "é"])
    add(".*?", _SAME, 0, True, ["ab", "é"])
    add("a*?", _SAME, 0, True, ["aa", "b"])
    add("(a|)", _SAME, 1, True, ["aa", "ba", "é日"])
    add("(|a)", _SAME, 1, True, ["aa", "ba"])
    add("()", _SAME, 1, True, ["ab", "é"])
    add("(?:)", _SAME, 0, True, ["ab", "日本"])
    add("[0-9]*", _SAME, 0, True, ["12", "a1b", "é2"])
    add("(x*)", _SAME, 1, True, ["xx", "axb", "éx日"])
    add("é*", _SAME, 0, True, ["éé", "aéb", "日é"])
    add("\\d*", "[0-9]*", 0, True, ["12", "a1b"])
    add("(a*)(b*)", _SAME, 2, True, ["aabb", "ba", "é"])
    add("a*|b", _SAME, 0, True, ["ab", "ba", "b"])
    return A


HOSTILE_ATOMS = _atoms()
HOSTILE_FILL = ["a", "b", "cat", "concat", " ", "  ", "-", "_", ".", "?", "\\", "x", "1", "12", "A", "é", "É", "日本", "😀",
                "|", "(", ")", "*", "+", "\t", "\x08", "k", "ok", "d", "n", "t", "$", "^", "{", "}", "[", "]", "/", ","]


def hostile_regex(rng):
    """-> dict(go, py|None, flags, groups, empty, samples, miller_ci, quoted)
    go: the regex text handed to Miller (possibly wrapped in the Miller "..." / "..."i delimiters);
    py + flags: the same language for Python's re, or None."""
    r = rng.random()
    k = 1 if r < 0.6 else 2 if r < 0.85 else 3
    parts = [rng.choice(HOSTILE_ATOMS) for _ in range(k)]
    shape = rng.random()
    go_parts, py_parts = [], []
    groups = 0
    for go, py, g, emp, smp in parts:
        groups += g
        go_parts.append(go)
        py_parts.append(py)
    have_py = all(p is not None for p in py_parts)
    top_alt = lambda s: "|" in re.sub(r"\\.|\[[^\]]*\]|\([^)]*\)", "", s)
    if k >= 2 and shape < 0.25:
        go, py = "|".join(go_parts), ("|".join(py_parts) if have_py else None)
        empty = any(p[3] for p in parts)
    else:
        # an atom with a top-level alternation is grouped before it is concatenated
        gp = ["(?:" + s + ")" if (k > 1 and top_alt(s)) else s for s in go_parts]
        pp = ["(?:" + s + ")" if (k > 1 and top_alt(s)) else s for s in py_parts] if have_py else None
        go, py = "".join(gp), ("".join(pp) if have_py else None)
        empty = all(p[3] for p in parts)
        if shape > 0.88 and not any(p[3] for p in parts):
            # quantify the whole (never a body that can match the empty string: engines differ on empty iterations)
            q = rng.choice(["+", "?", "*", "{2}", "+?", "{1,2}"])
            cap = rng.random() < 0.5
            go = ("(" if cap else "(?:") + go + ")" + q
            py = (("(" if cap else "(?:") + py + ")" + q) if py is not None else None
            if cap:
                groups = groups + 1     # the new group is number 1: references shift, handled by the caller through `groups` only
            empty = q in ("?", "*")
    flags = 0
    quoted = None
    w = rng.random()
    if w < 0.08:
        go = "(?i)" + go
        flags = re.IGNORECASE
    elif w < 0.18:
        quoted = '"%s"i'
        flags = re.IGNORECASE
    elif w < 0.24:
        quoted = '"%s"'
    samples = [s for p in parts for s in p[4]]
    return {"go": (quoted % go) if quoted else go, "bare": go, "py": py, "flags": flags, "groups": groups, "empty": empty,
            "samples": samples, "quoted": quoted}


def hostile_subject(rng, samples):
    n = rng.choice([0, 1, 1, 2, 2, 3, 4, 6])
    out = []
    for _ in range(n):
        out.append(rng.choice(samples) if (samples and rng.random() < 0.6) else rng.choice(HOSTILE_FILL))
        if rng.random() < 0.3:
            out.append(rng.choice([" ", " ", "-", ""]))
    s = "".join(out)
    if s.endswith("\n"):
        s += "z"
    return s
