"""Reference models for C15, written from Miller's documentation (function help,
reference-main-strings.md, reference-main-regular-expressions.md,
reference-main-number-formatting.md, reference-verbs.md) on top of Python's
str / re / hashlib / base64 / %-formatting.  Nothing here is derived from
Miller's Go sources.

Every model returns either a Python value (str, int, bool, list, dict), the
sentinel ABSENT / ERROR, or DECLINE when the arguments are outside the domain the
documentation defines (the caller counts those as skipped, never as held)."""
import re


class _Sentinel:
    def __init__(self, name):
        self.name = name

    def __repr__(self):
        return self.name


ABSENT = _Sentinel("ABSENT")
ERROR = _Sentinel("ERROR")
DECLINE = _Sentinel("DECLINE")

MASK64 = (1 << 64) - 1


# ==========================================================================================
# character functions

def is_ws_simple(s):
    """Domain predicate of the whitespace functions: the docs say "whitespace" without
    defining it; space and tab are whitespace under every reading, so the model only
    speaks when those are the only whitespace-like characters in the string."""
    for ch in s:
        if ch in " \t":
            continue
        if ch.isspace() or ch in "\x0b\x0c\x1c\x1d\x1e\x1f\x85\u200b\ufeff\u180e":
            return False
    return True


def lstrip(s):
    return s.lstrip(" \t") if is_ws_simple(s) else DECLINE


def rstrip(s):
    return s.rstrip(" \t") if is_ws_simple(s) else DECLINE


def strip(s):
    return s.strip(" \t") if is_ws_simple(s) else DECLINE


def collapse_whitespace(s):
    """"Strip repeated whitespace": runs of whitespace become one space (the verb
    clean-whitespace: "replacing multiple whitespace with singles")."""
    if not is_ws_simple(s):
        return DECLINE
    if "\t" in s:
        # a run containing a tab: the docs do not say whether the single survivor is a
        # space or the run's first character
        return DECLINE
    return re.sub(" +", " ", s)


def clean_whitespace(s):
    c = collapse_whitespace(s)
    if c is DECLINE:
        return DECLINE
    return c.strip(" ")


def simple_upper(ch):
    u = ch.upper()
    return u if len(u) == 1 else None


def simple_lower(ch):
    u = ch.lower()
    return u if len(u) == 1 else None


# characters whose one-to-one mapping differs between the Unicode simple mapping (what a
# per-code-point mapper uses) and Python's full mapping, or which are context dependent
_CASE_EXCLUDE = set("Σςİıẞßͅ")


def case_map(s, which):
    out = []
    for ch in s:
        if ch in _CASE_EXCLUDE:
            return DECLINE
        m = simple_upper(ch) if which == "upper" else simple_lower(ch)
        if m is None:
            return DECLINE
        # title-case digraphs (U+01C5 ...) and code points whose upper->lower does not
        # come back are where simple and full mappings disagree: stay on round-trippers
        out.append(m)
    return "".join(out)


def toupper(s):
    return case_map(s, "upper")


def tolower(s):
    return case_map(s, "lower")


def capitalize(s):
    if s == "":
        return ""
    h = case_map(s[0], "upper")
    if h is DECLINE:
        return DECLINE
    return h + s[1:]


def truncate(s, n):
    if n < 0:
        return DECLINE          # "max length" < 0 is not defined by the docs
    return s[:n]


def _pad_count(s, n, pad):
    if pad == "":
        return None
    room = n - len(s)
    if room <= 0:
        return 0
    return room // len(pad)     # "to at most the specified length"; leftpad("abcdefg",10,"XY") = "XYabcdefg"


def leftpad(s, n, pad):
    k = _pad_count(s, n, pad)
    if k is None:
        return s                # nothing can be added with an empty pad
    return pad * k + s


def rightpad(s, n, pad):
    k = _pad_count(s, n, pad)
    if k is None:
        return s
    return s + pad * k


def slice1(s, lo, hi):
    """s[lo:hi], 1-up, inclusive, negative aliasing -n..-1 -> 1..n, out-of-bounds slice
    indices are trimmed (reference-main-strings.md "Out-of-bounds indexing")."""
    n = len(s)
    if lo < 0:
        lo += n + 1
    if hi < 0:
        hi += n + 1
    lo = max(lo, 1)
    hi = min(hi, n)
    if lo > hi:
        return ""
    return s[lo - 1:hi]


def substr1(s, m, n):
    return slice1(s, m, n)


def substr0(s, m, n):
    """0-up positions m..n inclusive; negative indices -len..-1 alias to 0..len-1."""
    ln = len(s)
    if m < 0:
        m += ln
    if n < 0:
        n += ln
    m = max(m, 0)
    n = min(n, ln - 1)
    if m > n:
        return ""
    return s[m:n + 1]


def index1(s, m):
    """s[m]: out-of-bounds index accesses are errors; 0 is never valid."""
    n = len(s)
    if 1 <= m <= n:
        return s[m - 1]
    if -n <= m <= -1:
        return s[m + n]
    return ERROR


def index_of(s, t):
    i = s.find(t)
    return -1 if i < 0 else i + 1


def fmt_placeholders(fmt, args):
    """format(): "{}" sequential, "{n}" positional 1-up, too few -> empty, "{0}" -> error."""
    out = []
    i = 0
    seq = 0
    n = len(fmt)
    while i < n:
        if fmt[i] == "{":
            j = fmt.find("}", i)
            if j > 0:
                inner = fmt[i + 1:j]
                if inner == "":
                    out.append(args[seq] if seq < len(args) else "")
                    seq += 1
                    i = j + 1
                    continue
                if inner.isdigit() and inner.isascii():
                    k = int(inner)
                    if k == 0:
                        return ERROR
                    out.append(args[k - 1] if k <= len(args) else "")
                    i = j + 1
                    continue
                return DECLINE   # "{abc}" is not described
            return DECLINE
        if fmt[i] == "}":
            return DECLINE
        out.append(fmt[i])
        i += 1
    return "".join(out)


# ==========================================================================================
# printf

FMT_RE = re.compile(r"^([^%]*)%([-+ 0#]*)(\d*)(?:\.(\d*))?(_?)(ll|l)?([a-zA-Z])([^%]*)$")


def parse_format(fmt):
    m = FMT_RE.match(fmt)
    if not m:
        return None
    pre, flags, width, prec, sep, ell, verb, post = m.groups()
    return {"pre": pre, "flags": flags, "width": width, "prec": prec, "sep": sep, "ell": ell or "",
            "verb": verb, "post": post}


def _pad(body, sign_len, flags, width, zero_ok):
    w = int(width) if width else 0
    if len(body) >= w:
        return body
    if "-" in flags:
        return body + " " * (w - len(body))
    if "0" in flags and zero_ok:
        return body[:sign_len] + "0" * (w - len(body)) + body[sign_len:]
    return " " * (w - len(body)) + body


def c_printf(p, val):
    """Render one number as C printf would.  p = parse_format(...) dict; val int or float.
    int given to a float verb is converted to double; float given to an int verb is
    converted as a C cast (truncation toward zero).  Negative ints under x X o b are the
    64-bit two's complement (the documented behaviour of hexfmt, and what C does for
    unsigned conversions).  Returns the string, or DECLINE outside the shared domain."""
    verb, flags, width, prec = p["verb"], p["flags"], p["width"], p["prec"]
    if p["sep"]:
        return DECLINE
    if verb in "dxXob":
        if isinstance(val, float):
            if val != val or val in (float("inf"), float("-inf")):
                return DECLINE
            if abs(val) >= 2 ** 63:
                return DECLINE       # cast out of range is undefined in C
            val = int(val)
        sign = ""
        if verb == "d":
            if "#" in flags:
                return DECLINE
            if val < 0:
                sign, val = "-", -val
            elif "+" in flags:
                sign = "+"
            elif " " in flags:
                sign = " "
            digits = str(val)
        else:
            if "+" in flags or " " in flags:
                return DECLINE       # sign flags on unsigned conversions are undefined in C
            val &= MASK64
            if "#" in flags and (val == 0 or verb in "bX" or prec is not None or ("0" in flags and width)):
                return DECLINE       # C counts the 0x prefix inside the zero-padded width, Go's fmt does not
            digits = {"x": "%x", "X": "%X", "o": "%o"}[verb] % val if verb != "b" else bin(val)[2:]
        if prec is not None:
            pn = int(prec or 0)
            if pn == 0 and val == 0:
                digits = ""          # C: "a zero value with a precision of zero is no characters"
                if sign in ("+", " "):
                    return DECLINE   # C still prints the sign, Go's fmt (cited by the docs) prints nothing
            digits = digits.rjust(pn, "0")
        if "#" in flags:
            sign = {"x": "0x", "o": "0"}[verb]
        # C: for integer conversions the 0 flag is ignored when a precision is given
        body = _pad(sign + digits, len(sign), flags, width, prec is None)
    elif verb in "eEfFgG":
        if "#" in flags:
            return DECLINE
        if isinstance(val, int):
            val = float(val)
        if val != val or val in (float("inf"), float("-inf")):
            return DECLINE           # C prints inf/nan, Go +Inf/NaN: outside the shared domain
        if verb in "gG" and prec is None:
            return DECLINE           # default %g precision: C says 6, Go's fmt (cited by the docs) says shortest
        spec = "%" + flags + width + ("." + prec if prec is not None else "") + verb
        body = spec % val
    else:
        return DECLINE
    return p["pre"] + body + p["post"]


def sep_printf(p, val):
    """Miller-specific %_d / %_f: "comma-separated thousands" (LANG unset -> en)."""
    verb, flags, width, prec = p["verb"], p["flags"], p["width"], p["prec"]
    if flags not in ("",) or verb not in "df":
        return DECLINE
    if verb == "d":
        if isinstance(val, float):
            if val != val or abs(val) >= 2 ** 63:
                return DECLINE
            val = int(val)
        if prec is not None:
            return DECLINE
        body = format(val, ",d")
    else:
        val = float(val)
        if val != val or val in (float("inf"), float("-inf")):
            return DECLINE
        body = format(val, ",." + (prec if prec else "6" if prec is None else "0") + "f")
        if body.startswith("-") and not body.strip("-0.,"):
            return DECLINE           # sign of a negative value that rounds to zero: not described for the Miller-specific %_f
    w = int(width) if width else 0
    return p["pre"] + body.rjust(w) + p["post"]


def parse_number(text):
    """The number a data field spells, for the clear-cut spellings the generator emits:
    decimal / 0x / 0b / 0o ints with optional '-', decimal floats with '.', exponent.
    Returns int, float or None."""
    t = text
    neg = t.startswith("-")
    u = t[1:] if neg else t
    try:
        if re.fullmatch(r"0x[0-9a-fA-F]+", u):
            v = int(u, 16)
        elif re.fullmatch(r"0b[01]+", u):
            v = int(u, 2)
        elif re.fullmatch(r"0o[0-7]+", u):
            v = int(u, 8)
        elif re.fullmatch(r"(0|[1-9][0-9]*)", u):
            v = int(u)
        elif re.fullmatch(r"([0-9]+\.[0-9]*|\.[0-9]+|[0-9]+)([eE][-+]?[0-9]+)?", u):
            return float(t)
        else:
            return None
    except ValueError:
        return None
    v = -v if neg else v
    if not (-2 ** 63 <= v <= 2 ** 63 - 1):
        return None
    return v


def hexfmt(val):
    if isinstance(val, int):
        return "0x%x" % (val & MASK64)
    return DECLINE


# ==========================================================================================
# regex generator over the shared RE2 / Python subset.  A pattern is an AST rendered twice.

LIT_ALPHA = list("abcabcxyzABX012 _-:") + ["é", "É", "ö", "日", "д", "😀", ".", "+", "(", "[", "?", "*", "|", "$", "^"]
SUBJ_ALPHA = list("abcabcxyzABX012  _-:") + ["é", "É", "ö", "日", "д", "😀", ".", "+", "("]
CLS_ATOMS = ["a", "b", "c", "x", "z", "A", "B", "0", "1", "2", "_", " ", "é", "ö", "日"]
CLS_RANGES = [("a", "c"), ("a", "z"), ("A", "Z"), ("0", "9"), ("x", "z"), ("à", "ö"), ("0", "2")]
META = set("\\.^$|?*+()[]{}")


class Rx:
    __slots__ = ("kind", "a", "b", "c", "d")

    def __init__(self, kind, a=None, b=None, c=None, d=None):
        self.kind, self.a, self.b, self.c, self.d = kind, a, b, c, d


def rx_min_len(n):
    k = n.kind
    if k in ("lit", "dot", "cls", "perl"):
        return 1
    if k in ("bol", "eol"):
        return 0
    if k == "cat":
        return sum(rx_min_len(x) for x in n.a)
    if k == "alt":
        return min(rx_min_len(x) for x in n.a)
    if k == "grp":
        return rx_min_len(n.a)
    if k == "rep":
        return rx_min_len(n.a) * n.b
    if k == "empty":
        return 0
    raise ValueError(k)


def rx_ngroups(n):
    k = n.kind
    if k in ("cat", "alt"):
        return sum(rx_ngroups(x) for x in n.a)
    if k == "grp":
        return (1 if n.b else 0) + rx_ngroups(n.a)
    if k == "rep":
        return rx_ngroups(n.a)
    return 0


def rx_has_alt(n):
    k = n.kind
    if k == "alt":
        return True
    if k == "cat":
        return any(rx_has_alt(x) for x in n.a)
    if k in ("grp", "rep"):
        return rx_has_alt(n.a)
    return False


def rx_has_anchor(n):
    k = n.kind
    if k in ("bol", "eol"):
        return True
    if k in ("cat", "alt"):
        return any(rx_has_anchor(x) for x in n.a)
    if k in ("grp", "rep"):
        return rx_has_anchor(n.a)
    return False


def _esc(ch):
    return "\\" + ch if ch in META else ch


def rx_render(n, py, safe=False):
    """safe: spell the literals | and ? as one-character classes (Miller's DSL lexer does not
    accept the escapes \\| \\? inside a "..." literal, so the literal channel avoids them)."""
    k = n.kind
    if k == "lit":
        if safe and n.a in "|?":
            return "[" + n.a + "]"
        return _esc(n.a)
    if k == "dot":
        return "."
    if k == "bol":
        return "^"
    if k == "eol":
        return "$"
    if k == "empty":
        return ""
    if k == "perl":
        if not py:
            return "\\" + n.a
        return {"d": "[0-9]", "w": "[0-9A-Za-z_]", "s": "[\\t\\n\\f\\r ]",
                "D": "[^0-9]", "W": "[^0-9A-Za-z_]", "S": "[^\\t\\n\\f\\r ]"}[n.a]
    if k == "cls":
        body = "".join(x if isinstance(x, str) else x[0] + "-" + x[1] for x in n.b)
        return "[" + ("^" if n.a else "") + body + "]"
    if k == "cat":
        return "".join(rx_render(x, py, safe) for x in n.a)
    if k == "alt":
        return "|".join(rx_render(x, py, safe) for x in n.a)
    if k == "grp":
        return ("(" if n.b else "(?:") + rx_render(n.a, py, safe) + ")"
    if k == "rep":
        inner = rx_render(n.a, py, safe)
        if n.a.kind in ("cat", "alt", "rep") or (n.a.kind == "cat" and len(n.a.a) != 1):
            inner = "(?:" + inner + ")"
        lo, hi, lazy, style = n.b, n.c, n.d[0], n.d[1]
        if style == "sym":
            q = {(0, None): "*", (1, None): "+", (0, 1): "?"}[(lo, hi)]
        elif hi is None:
            q = "{%d,}" % lo
        elif hi == lo and style == "exact":
            q = "{%d}" % lo
        else:
            q = "{%d,%d}" % (lo, hi)
        return inner + q + ("?" if lazy else "")
    raise ValueError(k)


def rx_gen(rng, depth=0, budget=None):
    """Random AST. Invariants: a quantified body never matches the empty string (engines
    differ on empty iterations); <= 9 capturing groups is enforced by the caller."""
    if budget is None:
        budget = [rng.randint(2, 7)]

    def atom():
        r = rng.random()
        if r < 0.50:
            return Rx("lit", rng.choice(LIT_ALPHA))
        if r < 0.62:
            return Rx("dot")
        if r < 0.85:
            items = []
            for _ in range(rng.randint(1, 3)):
                items.append(rng.choice(CLS_RANGES) if rng.random() < 0.45 else rng.choice(CLS_ATOMS))
            return Rx("cls", rng.random() < 0.25, items)
        return Rx("perl", rng.choice("dddwwsDWS"))

    def piece(d):
        budget[0] -= 1
        r = rng.random()
        if d < 3 and r < 0.30:
            inner = seq(d + 1) if rng.random() < 0.6 else alt(d + 1)
            node = Rx("grp", inner, rng.random() < 0.75)
        else:
            node = atom()
        if rng.random() < 0.40 and rx_min_len(node) >= 1:
            lazy = rng.random() < 0.25
            c = rng.random()
            if c < 0.6:
                lo, hi = rng.choice([(0, None), (1, None), (0, 1)])
                node = Rx("rep", node, lo, hi, (lazy, "sym"))
            elif c < 0.75:
                lo = rng.randint(0, 3)
                node = Rx("rep", node, lo, lo, (lazy, "exact"))
            elif c < 0.9:
                lo = rng.randint(0, 3)
                hi = rng.randint(max(lo, 1), 6)
                node = Rx("rep", node, lo, hi, (lazy, "range"))
            else:
                node = Rx("rep", node, rng.randint(0, 2), None, (lazy, "open"))
        return node

    def seq(d):
        n = rng.randint(1, 3)
        items = [piece(d) for _ in range(n) if budget[0] > 0 or _ == 0]
        return Rx("cat", items)

    def alt(d):
        n = rng.randint(2, 3)
        return Rx("alt", [seq(d) for _ in range(n)])

    top = alt(depth) if rng.random() < 0.2 else seq(depth)
    while budget[0] > 0 and rng.random() < 0.7:
        top = Rx("cat", [top if top.kind != "alt" else Rx("grp", top, rng.random() < 0.5), piece(depth)])
    if rng.random() < 0.15:
        top = Rx("cat", [Rx("bol"), top if top.kind != "alt" else Rx("grp", top, False)])
    if rng.random() < 0.15:
        top = Rx("cat", [top if top.kind != "alt" else Rx("grp", top, False), Rx("eol")])
    return top


def rx_sample(n, rng):
    """A string the pattern is likely to match (not guaranteed for negated classes / anchors)."""
    k = n.kind
    if k == "lit":
        return n.a
    if k == "dot":
        return rng.choice(SUBJ_ALPHA)
    if k in ("bol", "eol", "empty"):
        return ""
    if k == "perl":
        pool = {"d": "0127", "w": "abx0_B", "s": " ", "D": "ab é", "W": " -:é", "S": "abé0"}[n.a]
        return pool[rng.randrange(len(pool))]
    if k == "cls":
        if n.a:
            return rng.choice(SUBJ_ALPHA)
        it = rng.choice(n.b)
        if isinstance(it, str):
            return it
        return chr(rng.randint(ord(it[0]), ord(it[1])))
    if k == "cat":
        return "".join(rx_sample(x, rng) for x in n.a)
    if k == "alt":
        return rx_sample(rng.choice(n.a), rng)
    if k == "grp":
        return rx_sample(n.a, rng)
    if k == "rep":
        hi = n.c if n.c is not None else n.b + 3
        return "".join(rx_sample(n.a, rng) for _ in range(rng.randint(n.b, hi)))
    raise ValueError(k)


def expand_repl(repl, m, ngroups):
    """Miller's replacement language: \\0 whole match, \\1..\\9 groups ("\\15" = \\1 then "5").
    A reference to a group the pattern does not have is not described -> DECLINE."""
    out = []
    i = 0
    while i < len(repl):
        if repl[i] == "\\" and i + 1 < len(repl) and repl[i + 1] in "0123456789":
            g = int(repl[i + 1])
            if g > ngroups:
                return DECLINE
            v = m.group(g)
            out.append(v if v is not None else "")
            i += 2
            continue
        out.append(repl[i])
        i += 1
    return "".join(out)
