"""C02 helper model (used by vf/props/c02.py only).

* the documented auto-flatten / auto-unflatten DECISION (flatten-unflatten.md "Manual control", `mlr help
  flatten-unflatten-flags`, `mlr flatten --help`, `mlr unflatten --help`) as a function of
  (input format, output format, verb chain, flags), and the record transformation that follows from it;
* tiny writers / readers for the formats the C01 codecs have none for (YAML block text as INPUT, `key: value`
  stanzas of DCF / recutils);
* the format names and flag spellings as the DOCUMENTATION lists them (reference-main-flag-list.md,
  shell-completion.md, file-formats.md), so that a spelling the binary rejects cannot drop out of the table silently.
"""
import os
import re

from . import codecs as C

NESTABLE = ("json", "jsonl", "yaml")     # flatten-unflatten.md: "JSON or YAML"; JSON Lines is JSON (file-formats.md)
DOCS = "/repo/docs/src"


# ------------------------------------------------------------------------------------------------------------------
# decision table

def decision(ifmt, ofmt, verbs, flags):
    """-> (auto_flatten, auto_unflatten).

    flatten-unflatten.md, Manual control:
      * "When the output format is not JSON or YAML ... Miller appends, in effect, `then flatten` to the end of the chain.
         This behavior is on by default but it can be suppressed using the --no-auto-flatten flag."
        ("auto-flatten happens even when the input format and the output format are both non-JSON/non-YAML")
      * "When the output format is JSON or YAML and the input format is neither, then (similarly) Miller appends, in effect,
         `then unflatten` to the end of the chain. ... suppressed using the --no-auto-unflatten flag."
    Convention not in the prose (pinned, listed in chk.assumptions): when the LAST verb the user wrote is `flatten`, no
    unflatten is appended after it (otherwise `mlr --icsv --ojson flatten` could never show flattened output).
    """
    auto_flatten = "--no-auto-flatten" not in flags and ofmt not in NESTABLE
    auto_unflatten = ("--no-auto-unflatten" not in flags and ifmt not in NESTABLE and ofmt in NESTABLE
                      and not (verbs and verbs[-1][0] == "flatten"))
    return auto_flatten, auto_unflatten


def is_coll(v):
    return isinstance(v, list)          # JObj is a list subclass


def leaf_text(v):
    if v is True:
        return "true"
    if v is False:
        return "false"
    return str(v)


def flatten_rec(rec, sep):
    """Key-spreading: path joined with the separator, 1-up array indices, '{}' / '[]' for empty collections."""
    out = C.JObj()

    def walk(prefix, v):
        if isinstance(v, C.JObj):
            if not v:
                out.append((prefix, "{}"))
            for k, x in v:
                walk(prefix + sep + k, x)
        elif isinstance(v, list):
            if not v:
                out.append((prefix, "[]"))
            for i, x in enumerate(v):
                walk(prefix + sep + str(i + 1), x)
        else:
            out.append((prefix, v))
    for k, x in rec:
        walk(k, x)
    return out


def is_literal_name(k, sep):
    """flatten-unflatten.md, Non-inferencing cases: starts with / ends with / doubles the separator."""
    return k.startswith(sep) or k.endswith(sep) or (sep + sep) in k


def _sentinel(v):
    if not is_coll(v) and leaf_text(v) == "{}":
        return C.JObj()
    if not is_coll(v) and leaf_text(v) == "[]":
        return []
    return v


def _put(obj, parts, val):
    k = parts[0]
    idx = next((i for i, (kk, _) in enumerate(obj) if kk == k), None)
    if len(parts) == 1:
        if idx is None:
            obj.append((k, val))
        else:
            obj[idx] = (k, val)
        return
    if idx is None or not isinstance(obj[idx][1], C.JObj):
        child = C.JObj()
        if idx is None:
            obj.append((k, child))
        else:
            obj[idx] = (k, child)
    else:
        child = obj[idx][1]
    _put(child, parts[1:], val)


def arrayify(v):
    """A map keyed exactly "1".."n" (in order, no gaps) is an array (Auto-inferencing of arrays on unflatten)."""
    if isinstance(v, C.JObj):
        kids = C.JObj((k, arrayify(x)) for k, x in v)
        if kids and [k for k, _ in kids] == [str(i + 1) for i in range(len(kids))]:
            return [x for _, x in kids]
        return kids
    if isinstance(v, list):
        return [arrayify(x) for x in v]
    return v


def unflatten_rec(rec, sep):
    """`unflatten` reverses `flatten`: names are split at the separator into nested maps, maps keyed 1..n become arrays,
    '{}' / '[]' become empty collections; names in the non-inferencing class stay literal."""
    out = C.JObj()
    affected = []
    for k, v in rec:
        if sep not in k or is_literal_name(k, sep):
            _put(out, [k], _sentinel(v))
            continue
        parts = k.split(sep)
        _put(out, parts, _sentinel(v))
        if parts[0] not in affected:
            affected.append(parts[0])
    return C.JObj((k, arrayify(v) if k in affected else v) for k, v in out)


PUT_EXPR = '$z = {"u": {"v": 1}, "w": [2, 3], "y": {}}'
PUT_VALUE = C.JObj([("u", C.JObj([("v", C.JNum("1"))])), ("w", [C.JNum("2"), C.JNum("3")]), ("y", C.JObj())])


def apply_chain(recs, verbs, flatsep):
    """verbs: [(name, sep or None)]; names cat | flatten | unflatten | put."""
    for name, s in verbs:
        s = s or flatsep
        if name == "flatten":
            recs = [flatten_rec(r, s) for r in recs]
        elif name == "unflatten":
            recs = [unflatten_rec(r, s) for r in recs]
        elif name == "put":
            recs = [C.JObj([(k, v) for k, v in r if k != "z"] + [("z", PUT_VALUE)]) for r in recs]
    return recs


def chain_argv(verbs):
    out = []
    for i, (name, s) in enumerate(verbs):
        if i:
            out.append("then")
        if name == "put":
            out += ["put", PUT_EXPR]
        else:
            out += [name] + (["-s", s] if s else [])
    return out


def expected_output(recs, ifmt, ofmt, verbs, flags, flatsep):
    """The records the writer is handed, per the documented decision."""
    fl, un = decision(ifmt, ofmt, verbs, flags)
    recs = apply_chain(recs, verbs, flatsep)
    if un:
        recs = [unflatten_rec(r, flatsep) for r in recs]
    if fl:
        recs = [flatten_rec(r, flatsep) for r in recs]
    return recs, fl, un


def sort_keys(v):
    """Canonical form for comparisons across a YAML read (the YAML reader sorts keys: C01-F6)."""
    if isinstance(v, C.JObj):
        return C.JObj(sorted(((k, sort_keys(x)) for k, x in v), key=lambda kv: kv[0]))
    if isinstance(v, list):
        return [sort_keys(x) for x in v]
    return v


# ------------------------------------------------------------------------------------------------------------------
# writers / readers the codecs module has none for

def _yaml_scalar(v):
    if is_coll(v):
        return "{}" if isinstance(v, C.JObj) else "[]"
    if isinstance(v, C.JNum) or v is True or v is False:
        return leaf_text(v)
    return C.json_string(v)              # a JSON string is a YAML double-quoted scalar


def _yaml_emit(v, ind, out):
    pad = " " * ind
    if isinstance(v, C.JObj):
        for k, x in v:
            if is_coll(x) and x:
                out.append(pad + C.json_string(k) + ":")
                _yaml_emit(x, ind + 2, out)
            else:
                out.append(pad + C.json_string(k) + ": " + _yaml_scalar(x))
    else:
        for x in v:
            if is_coll(x) and x:
                sub = []
                _yaml_emit(x, ind + 2, sub)
                if isinstance(x, C.JObj):
                    sub[0] = pad + "- " + sub[0][ind + 2:]
                    out.extend(sub)
                else:
                    out.append(pad + "-")
                    out.extend(sub)
            else:
                out.append(pad + "- " + _yaml_scalar(x))


def write_yaml(recs, multidoc=False):
    """file-formats.md, YAML: 'a single YAML document that is ... an array of objects (one record per element), or
    multiple YAML documents separated by ---'. Block style, keys and strings double-quoted."""
    out = []
    if multidoc:
        for i, r in enumerate(recs):
            if i:
                out.append("---")
            _yaml_emit(r, 0, out)
    else:
        _yaml_emit(list(recs), 0, out)
    return ("\n".join(out) + "\n").encode("utf-8") if out else b""


def write_stanzas(recs):
    """DCF / recutils: `key: value` lines, records separated by one blank line (file-formats.md examples)."""
    return b"\n".join(b"".join(k + b": " + v + b"\n" for k, v in r) for r in recs)


def read_stanzas(data):
    out = []
    for block in re.split(rb"\n\s*\n", data.strip(b"\n")):
        if not block.strip():
            continue
        rec = []
        for line in block.split(b"\n"):
            if b":" not in line:
                raise C.CodecError("stanza line without colon: %r" % line[:60])
            k, v = line.split(b":", 1)
            rec.append((k, v[1:] if v.startswith(b" ") else v))
        out.append(rec)
    return out


# ------------------------------------------------------------------------------------------------------------------
# documented names and spellings

def _doc(page):
    try:
        with open(os.path.join(DOCS, page), "r", encoding="utf-8") as f:
            return f.read()
    except OSError:
        return ""


def documented_format_flags():
    """reference-main-flag-list.md, section File-format flags -> {name: {"i": [spellings], "o": [...], "io": [...]}}
    for every line `* `--x or --y`: Use <F> format for input|output|input and output data.`; name = the stem of the
    first spelling (with the leading i / o of the one-sided flags removed)."""
    txt = _doc("reference-main-flag-list.md")
    m = re.search(r"^## File-format flags\n(.*?)^## ", txt, re.S | re.M)
    sec = m.group(1) if m else ""
    out = {}
    for line in sec.splitlines():
        m = re.match(r"^\* `(-{1,2}[\w-]+(?: or -{1,2}[\w-]+)*)`: Use (.+?) format for (input and output|input|output) data\.", line)
        if not m:
            continue
        spellings = m.group(1).split(" or ")
        which = {"input and output": "io", "input": "i", "output": "o"}[m.group(3)]
        for sp in spellings:
            if not sp.startswith("--") or re.fullmatch(r"--[a-z]2[a-z]", sp):
                continue
            stem = sp[2:]
            if which in ("i", "o"):
                if not stem.startswith(which):
                    continue
                stem = stem[1:]
            out.setdefault(stem, {"i": [], "o": [], "io": [], "sentence": m.group(2)})[which].append(sp)
    return out


def documented_io_names():
    """Names the documentation gives to -i / -o / --io: the shell-completion list, plus every `-i NAME` / `-o NAME` /
    `--io NAME` that occurs in a documentation page."""
    names = set()
    sc = _doc("shell-completion.md")
    m = re.search(r"mlr -i <b>TAB</b>\n([^\n<]+)\n", sc)
    if m:
        names |= set(m.group(1).split())
    for page in ("file-formats.md", "reference-main-flag-list.md", "questions-about-joins.md", "reference-dsl-output-statements.md",
                 "record-heterogeneity.md", "shapes-of-data.md", "10min.md", "keystroke-savers.md"):
        for mm in re.finditer(r"(?:^|[\s`(])(?:-i|-o|--io) ([a-z][a-z0-9]+)\b", _doc(page)):
            names.add(mm.group(1))
    names -= {"gen", "format", "someothername", "name"}
    return sorted(names)
