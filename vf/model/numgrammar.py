"""Reference classifier for Miller's type inference from data (property C06).

Written from the documentation - reference-main-arithmetic.md ("Input scanning"),
reference-main-data-types.md ("Type inference for literal and record data", the inf/NaN/true/false
paragraph), reference-main-flag-list.md / new-in-miller-6.md (-S -A -O) - and the property
statement.  Anchored regular expressions + Python int()/float(); nothing is shared with pkg/scan.

classify(s, mode) returns a list of acceptable outcomes, each one of
    ("empty",) ("string",) ("int", v) ("float", x)
(more than one where the documentation leaves the choice open), plus a short tag naming the
grammar category (used for coverage counts and violation signatures).
"""
import re

MIN = -(1 << 63)
MAX = (1 << 63) - 1

RE_DEC = re.compile(r"([+-]?)(\d+)\Z", re.ASCII)
RE_HEX = re.compile(r"([+-]?)0[xX]([0-9a-fA-F]+)\Z", re.ASCII)
RE_BIN = re.compile(r"([+-]?)0[bB]([01]+)\Z", re.ASCII)
RE_OCT = re.compile(r"([+-]?)0[oO]([0-7]+)\Z", re.ASCII)
# C / Go decimal floating-point syntax, at least one digit in the mantissa
RE_FLT = re.compile(r"[+-]?(\d+\.?\d*|\.\d+)([eE][+-]?\d+)?\Z", re.ASCII)

MODES = ("default", "S", "A", "O")
MODE_FLAGS = {"default": [], "S": ["-S"], "A": ["-A"], "O": ["-O"]}

INF = float("inf")


def fits(v):
    return MIN <= v <= MAX


def big_float(v):
    try:
        return float(v)
    except OverflowError:
        return INF if v > 0 else -INF


def _int_or_float(v):
    """Statement: integers that do not fit in 64 bits become floats."""
    if fits(v):
        return [("int", v)]
    return [("float", big_float(v))]


def _classify_default(s, octal_ok):
    if s == "":
        return [("empty",)], "empty"
    m = RE_DEC.match(s)
    if m:
        sign, digits = m.group(1), m.group(2)
        neg = sign == "-"
        if len(digits) > 1 and digits[0] == "0":
            if not octal_ok:
                return [("string",)], "dec-leading-zero"
            if all(c in "01234567" for c in digits):
                v = int(digits, 8)
                v = -v if neg else v
                return _int_or_float(v), ("O-octal" if fits(v) else "O-octal-beyond-int64")
            # -O with an 8 or 9: reference-main-arithmetic.md and new-in-miller-6.md say decimal int,
            # reference-main-flag-list.md says float: both accepted
            v = int(digits, 10)
            v = -v if neg else v
            out = [("float", big_float(v))]
            if out[0][1] in (INF, -INF):
                return out + [("string",)], "float-out-of-range"
            if fits(v):
                out.append(("int", v))
            return out, ("O-leading-zero-89" if fits(v) else "O-leading-zero-89-beyond-int64")
        v = int(digits, 10)
        v = -v if neg else v
        if fits(v):
            return [("int", v)], "dec-int"
        x = big_float(v)
        if x in (INF, -INF):
            # beyond the double range too (309+ digits): same documented gap as 1e400
            return [("float", x), ("string",)], "float-out-of-range"
        return [("float", x)], "dec-int-beyond-int64"
    m = RE_HEX.match(s)
    if m:
        sign, digits = m.group(1), m.group(2)
        u = int(digits, 16)
        if u < (1 << 63):
            return [("int", -u if sign == "-" else u)], "hex-int"
        if u < (1 << 64):
            tc = u - (1 << 64)                    # two's complement (statement: 16-digit hex from 0x8 upward)
            if len(digits) > 16:
                # more than 16 digits (leading zeros) with bit 63 set: two's complement or "does not fit"
                v = -u if sign == "-" else u
                out = [("float", big_float(v))]
                out += [o for o in _int_or_float(-tc if sign == "-" else tc) if o not in out]
                return out, "hex-bit64-leading-zeros"
            if sign != "-":
                return [("int", tc)], "hex-twos-complement"
            # a minus sign in front of a two's-complement literal: negate either reading
            out = _int_or_float(-tc)
            for o in _int_or_float(-u):
                if o not in out:
                    out.append(o)
            return out, "hex-twos-complement-signed"
        return [("float", big_float(-u if sign == "-" else u))], "hex-beyond-64-bits"
    for rx, base, name in ((RE_BIN, 2, "bin"), (RE_OCT, 8, "oct")):
        m = rx.match(s)
        if m:
            sign, digits = m.group(1), m.group(2)
            u = int(digits, base)
            v = -u if sign == "-" else u
            if u < (1 << 63):
                return [("int", v)], name + "-int"
            if fits(v):                               # -2^63 written in binary / octal
                return [("int", v), ("float", big_float(v))], name + "-min"
            if u < (1 << 64):
                # the documentation describes two's complement only for hex: float or the
                # two's-complement int are both accepted for the other bases
                tc = u - (1 << 64)
                out = [("float", big_float(v))]
                out += [o for o in _int_or_float(-tc if sign == "-" else tc) if o not in out]
                return out, name + "-bit64"
            return [("float", big_float(v))], name + "-beyond-64-bits"
    if RE_FLT.match(s):
        x = float(s)                                  # correctly rounded, like strconv.ParseFloat
        if x in (INF, -INF):
            # out-of-range decimal float: not covered by the documentation (the inf/NaN paragraph
            # says such *words* are strings; nothing is said about 1e400): float Inf or string
            return [("float", x), ("string",)], "float-out-of-range"
        return [("float", x)], "float"
    return [("string",)], "string"


def classify(s, mode="default"):
    if mode == "S":
        if s == "":
            return [("empty",)], "empty"
        return [("string",)], "S"
    outs, tag = _classify_default(s, octal_ok=(mode == "O"))
    if mode == "A":
        conv = []
        for o in outs:
            if o[0] == "int":
                o = ("float", float(o[1]))
            if o not in conv:
                conv.append(o)
        outs = conv
    return outs, tag


RE_JSON_NUMBER = re.compile(r"-?(0|[1-9]\d*)(\.\d+)?([eE][+-]?\d+)?\Z", re.ASCII)


def is_json_number(s):
    return RE_JSON_NUMBER.match(s) is not None


# DSL literal carrier: only spellings the documentation promises for number literals, unsigned, no
# leading zero: 7, 8.9, 1e5, 0xff, 0b1011, 0o377 (reference-main-data-types.md "Type inference for
# literal and record data": the same scan for "data files, or ... DSL expressions you key in";
# reference-main-arithmetic.md: prefixes 0x 0o 0b), and the two C/Go float spellings with a bare point
# (5. and .5, optionally with an exponent) which the same float grammar admits
RE_DSL_LITERAL = re.compile(r"((0|[1-9]\d*)(\.\d*)?([eE][+-]?\d+)?|\.\d+([eE][+-]?\d+)?"
                            r"|0x[0-9a-fA-F]+|0b[01]+|0o[0-7]+)\Z", re.ASCII)


def is_dsl_literal(s):
    return RE_DSL_LITERAL.match(s) is not None
