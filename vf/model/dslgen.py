"""AST pretty-printer (minimal parentheses from the documented precedence table) and program
generators for property C14.  The AST is described in dslref.py.

Precedence, highest first (docs/src/reference-dsl-operators.md):
  **(R) | ??? | ?? | unary ! ~ + - (R) | . | * / // % | + - | << >> >>> | & | ^ | "|" |
  < <= > >= | == != =~ !=~ <=> | && | ^^ | "||" | ?: (R)
"""
import re

PREC = {}
for lvl, ops in enumerate([
        ["?:"], ["||"], ["^^"], ["&&"], ["==", "!=", "=~", "!=~", "<=>"], ["<", "<=", ">", ">="],
        ["|"], ["^"], ["&"], ["<<", ">>", ">>>"], ["+", "-"], ["*", "/", "//", "%"], ["."],
        ["unary"], ["??"], ["???"], ["**"]]):
    for o in ops:
        PREC[o] = lvl
RIGHT_ASSOC = {"**", "?:"}
UNARY_LEVEL = PREC["unary"]
PRIMARY = 100
BINOPS = [o for o in PREC if o not in ("?:", "unary")]

_IDENT = re.compile(r"[A-Za-z_][A-Za-z_0-9]*\Z")


def level(e):
    k = e[0]
    if k == "bin":
        return PREC[e[1]]
    if k == "un":
        return UNARY_LEVEL
    if k == "tern":
        return PREC["?:"]
    return PRIMARY


def _paren(s):
    return "(" + s + ")"


def pp(e, style=0):
    """Expression -> Miller text with minimal parentheses (style bits only vary optional punctuation)."""
    k = e[0]
    if k == "int":
        return str(e[1])
    if k == "str":
        return '"' + e[1] + '"'
    if k == "bool":
        return "true" if e[1] else "false"
    if k == "field":
        return "$" + e[1] if _IDENT.match(e[1]) else "${" + e[1] + "}"
    if k == "fieldx":
        return "$[" + pp(e[1], style) + "]"
    if k == "posname":
        return "$[[" + pp(e[1], style) + "]]"
    if k == "posval":
        return "$[[[" + pp(e[1], style) + "]]]"
    if k == "srec":
        return "$*"
    if k == "oos":
        return "@" + e[1] if _IDENT.match(e[1]) else "@{" + e[1] + "}"
    if k == "oosall":
        return "@*"
    if k == "all":
        return "all"
    if k == "local":
        return e[1]
    if k == "ctx":
        return e[1]
    if k == "bin":
        op = e[1]
        L = PREC[op]
        a, b = e[2], e[3]
        sa, sb = pp(a, style), pp(b, style)
        la, lb = level(a), level(b)
        if op in RIGHT_ASSOC:
            pa, pb = la <= L, lb < L
        else:
            pa, pb = la < L, lb <= L
        if pa:
            sa = _paren(sa)
        if pb:
            sb = _paren(sb)
        return sa + " " + op + " " + sb
    if k == "un":
        a = e[2]
        sa = pp(a, style)
        if level(a) < UNARY_LEVEL:
            sa = _paren(sa)
        elif a[0] == "un" and (a[1] in "+-" and e[1] in "+-"):
            sa = " " + sa
        return e[1] + sa
    if k == "tern":
        c, a, b = e[1], e[2], e[3]
        L = PREC["?:"]
        sc, sa, sb = pp(c, style), pp(a, style), pp(b, style)
        if level(c) <= L:
            sc = _paren(sc)
        if level(a) <= L and not (style & 2):
            sa = _paren(sa)
        # right-associative: the else-branch may be a bare ternary
        return sc + " ? " + sa + " : " + sb
    if k == "index":
        sb = pp(e[1], style)
        if level(e[1]) < PRIMARY:
            sb = _paren(sb)
        return sb + "".join("[" + pp(i, style) + "]" for i in e[2])
    if k == "slice":
        sb = pp(e[1], style)
        if level(e[1]) < PRIMARY:
            sb = _paren(sb)
        lo = pp(e[2], style) if e[2] is not None else ""
        hi = pp(e[3], style) if e[3] is not None else ""
        if e[2] is not None and level(e[2]) <= PREC["?:"]:
            lo = _paren(lo)
        if e[3] is not None and level(e[3]) <= PREC["?:"]:
            hi = _paren(hi)
        return sb + "[" + lo + ":" + hi + "]"
    if k == "map":
        parts = []
        for ke, ve in e[1]:
            sk = pp(ke, style)
            if level(ke) <= PREC["?:"]:
                sk = _paren(sk)
            parts.append(sk + ": " + pp(ve, style))
        return "{" + ", ".join(parts) + "}"
    if k == "arr":
        return "[" + ", ".join(pp(x, style) for x in e[1]) + "]"
    if k in ("bcall", "ucall", "lcall"):
        return e[1] + "(" + ", ".join(pp(x, style) for x in e[2]) + ")"
    if k == "funclit":
        return "func(" + _params(e[1]) + ")" + (": " + e[2] if e[2] else "") + " {\n" + pp_block(e[3], 2, style) + "  }"
    raise ValueError("pp: unknown expression kind %r" % (k,))


def _params(ps):
    return ", ".join((t + " " + n) if t else n for t, n in ps)


def pp_lv(lv, style=0):
    if lv[0] == "index":
        return pp_lv(lv[1], style) + "".join("[" + pp(i, style) + "]" for i in lv[2])
    return pp(lv, style)


def _ind(n):
    return "  " * n


def pp_block(stmts, ind=1, style=0):
    out = []
    for i, s in enumerate(stmts):
        txt = pp_stmt(s, ind, style)
        closes = txt.rstrip().endswith("}")
        # semicolons are separators; optional after a closing brace (reference-dsl-syntax.md): alternate
        if closes and s[0] not in ("assign", "decl", "opassign", "emit1", "emit", "print", "printn", "dump", "return",
                                    "bare", "filter", "call") and (style & 4):
            out.append(_ind(ind) + txt + "\n")
        else:
            out.append(_ind(ind) + txt + ";\n")
    return "".join(out)


def pp_stmt(s, ind=1, style=0):
    k = s[0]
    P = lambda e: pp(e, style)
    B = lambda b: "{\n" + pp_block(b, ind + 1, style) + _ind(ind) + "}"
    if k == "assign":
        return pp_lv(s[1], style) + " = " + P(s[2])
    if k == "opassign":
        return pp_lv(s[2], style) + " " + s[1] + "= " + P(s[3])
    if k == "decl":
        return s[1] + " " + s[2] + " = " + P(s[3])
    if k == "unset":
        return "unset " + ", ".join(pp_lv(l, style) for l in s[1])
    if k == "if":
        t = ""
        for n, (c, b) in enumerate(s[1]):
            t += ("if" if n == 0 else " elif") + " (" + P(c) + ") " + B(b)
        if s[2] is not None:
            t += " else " + B(s[2])
        return t
    if k == "cond":
        c = P(s[1])
        if level(s[1]) < PRIMARY or s[1][0] in ("map",):
            c = _paren(c) if (style & 8) or s[1][0] == "map" else c
        return c + " " + B(s[2])
    if k == "while":
        return "while (" + P(s[1]) + ") " + B(s[2])
    if k == "dowhile":
        return "do " + B(s[1]) + " while (" + P(s[2]) + ")"
    if k == "for1":
        t, v = s[1]
        return "for (" + ((t + " ") if t else "") + v + " in " + P(s[2]) + ") " + B(s[3])
    if k == "for2":
        (kt, kn), (vt, vn) = s[1], s[2]
        ks = ((kt + " ") if kt else "") + kn
        if style & 16:
            ks = "(" + ks + ")"
        return "for (" + ks + ", " + ((vt + " ") if vt else "") + vn + " in " + P(s[3]) + ") " + B(s[4])
    if k == "formulti":
        return "for ((" + ", ".join(s[1]) + "), " + s[2] + " in " + P(s[3]) + ") " + B(s[4])
    if k == "forc":
        ini = ", ".join(pp_stmt(x, ind, style) for x in s[1])
        stp = ", ".join(pp_stmt(x, ind, style) for x in s[3])
        return "for (" + ini + "; " + (P(s[2]) if s[2] is not None else "") + "; " + stp + ") " + B(s[4])
    if k == "break":
        return "break"
    if k == "continue":
        return "continue"
    if k == "return":
        return "return" + ((" " + P(s[1])) if s[1] is not None else "")
    if k == "call":
        return "call " + s[1] + "(" + ", ".join(P(a) for a in s[2]) + ")"
    if k == "bare":
        return P(s[1])
    if k == "filter":
        return "filter " + P(s[1])
    if k in ("print", "printn"):
        return k + ((" " + ", ".join(P(a) for a in s[1])) if s[1] else "")
    if k == "dump":
        return "dump" + ((" " + P(s[1])) if s[1] is not None else "")
    if k == "emit1":
        return "emit1 " + P(s[1])
    if k == "emitf":
        return "emitf " + ", ".join("@" + n for n in s[1])
    if k == "emit":
        kind, lashed, ems, names = s[1], s[2], s[3], s[4]
        if lashed:
            t = kind + " (" + ", ".join(P(x) for x in ems) + ")"
        else:
            t = kind + " " + P(ems[0])
        if names:
            t += ", " + ", ".join(P(n) for n in names)
        return t
    if k == "begin":
        return "begin " + B(s[1])
    if k == "end":
        return "end " + B(s[1])
    if k == "func":
        return "func " + s[1] + "(" + _params(s[2]) + ")" + (": " + s[3] if s[3] else "") + " " + B(s[4])
    if k == "subr":
        return "subr " + s[1] + "(" + _params(s[2]) + ") " + B(s[3])
    raise ValueError("pp_stmt: unknown statement kind %r" % (k,))


def pp_prog(prog, style=0):
    return pp_block(prog, 0, style)


# ------------------------------------------------------------------------------------------------
# tree utilities (for shrinking)

def is_node(x):
    return isinstance(x, tuple) and len(x) > 0 and isinstance(x[0], str)


def size(x):
    if isinstance(x, (tuple, list)):
        return 1 + sum(size(y) for y in x)
    return 1


EXPR_KINDS = {"int", "str", "bool", "field", "fieldx", "posname", "posval", "srec", "oos", "oosall", "local", "ctx", "bin",
              "un", "tern", "index", "slice", "map", "arr", "bcall", "ucall", "lcall", "funclit"}
STMT_KINDS = {"assign", "opassign", "decl", "unset", "if", "cond", "while", "dowhile", "for1", "for2", "formulti", "forc",
              "break", "continue", "return", "call", "bare", "filter", "print", "printn", "dump", "emit1", "emitf", "emit",
              "begin", "end", "func", "subr"}


def shrink_candidates(prog):
    """Yield smaller variants of a program: statement deletions, block hoists, sub-expression replacement."""
    # 1. delete one statement anywhere (top-level or nested)
    def del_in_list(lst):
        for i in range(len(lst)):
            yield lst[:i] + lst[i + 1:]
        for i, s in enumerate(lst):
            for v in stmt_variants(s):
                if isinstance(v, list):
                    yield lst[:i] + v + lst[i + 1:]
                else:
                    yield lst[:i] + [v] + lst[i + 1:]

    def stmt_variants(s):
        k = s[0]
        if k in ("begin", "end"):
            for b in del_in_list(s[1]):
                yield (k, b)
        elif k == "func":
            for b in del_in_list(s[4]):
                yield (k, s[1], s[2], s[3], b)
        elif k == "subr":
            for b in del_in_list(s[3]):
                yield (k, s[1], s[2], b)
        elif k == "if":
            for n, (c, b) in enumerate(s[1]):
                yield list(b)      # hoist the branch body (list => spliced in place)
                for nb in del_in_list(b):
                    yield (k, s[1][:n] + [(c, nb)] + s[1][n + 1:], s[2])
                for nc in expr_variants(c):
                    yield (k, s[1][:n] + [(nc, b)] + s[1][n + 1:], s[2])
            if s[2] is not None:
                yield (k, s[1], None)
                yield list(s[2])
                for nb in del_in_list(s[2]):
                    yield (k, s[1], nb)
        elif k == "cond":
            yield list(s[2])
            for nb in del_in_list(s[2]):
                yield (k, s[1], nb)
            for nc in expr_variants(s[1]):
                yield (k, nc, s[2])
        elif k in ("while",):
            for nb in del_in_list(s[2]):
                yield (k, s[1], nb)
        elif k == "dowhile":
            yield list(s[1])
            for nb in del_in_list(s[1]):
                yield (k, nb, s[2])
        elif k == "for1":
            for nb in del_in_list(s[3]):
                yield (k, s[1], s[2], nb)
            for ne in expr_variants(s[2]):
                yield (k, s[1], ne, s[3])
        elif k in ("for2", "formulti"):
            for nb in del_in_list(s[4]):
                yield (k, s[1], s[2], s[3], nb)
            for ne in expr_variants(s[3]):
                yield (k, s[1], s[2], ne, s[4])
        elif k == "forc":
            for nb in del_in_list(s[4]):
                yield (k, s[1], s[2], s[3], nb)
        elif k == "assign":
            for ne in expr_variants(s[2]):
                yield (k, s[1], ne)
        elif k == "opassign":
            yield ("assign", s[2], s[3])
            for ne in expr_variants(s[3]):
                yield (k, s[1], s[2], ne)
        elif k == "decl":
            yield ("assign", ("local", s[2]), s[3])
            if s[1] != "var":
                yield (k, "var", s[2], s[3])
            for ne in expr_variants(s[3]):
                yield (k, s[1], s[2], ne)
        elif k in ("print", "printn"):
            for i in range(len(s[1])):
                if len(s[1]) > 1:
                    yield (k, s[1][:i] + s[1][i + 1:])
                for ne in expr_variants(s[1][i]):
                    yield (k, s[1][:i] + [ne] + s[1][i + 1:])
        elif k in ("bare", "filter", "emit1"):
            for ne in expr_variants(s[1]):
                yield (k, ne)
        elif k == "return" and s[1] is not None:
            for ne in expr_variants(s[1]):
                yield (k, ne)
        elif k == "emit":
            if s[4]:
                yield (k, s[1], s[2], s[3], s[4][:-1])
            if s[2] and len(s[3]) > 1:
                yield (k, s[1], len(s[3]) > 2, s[3][:-1], s[4])
        elif k == "unset" and len(s[1]) > 1:
            for i in range(len(s[1])):
                yield (k, s[1][:i] + s[1][i + 1:])

    def expr_variants(e):
        k = e[0]
        if k in ("int", "str", "bool"):
            if k == "int" and e[1] not in (0, 1):
                yield ("int", 1)
            return
        # replace by a child of the same syntactic class, or by a leaf
        kids = []
        if k == "bin":
            kids = [e[2], e[3]]
        elif k == "un":
            kids = [e[2]]
        elif k == "tern":
            kids = [e[2], e[3]]
        elif k in ("bcall", "ucall", "lcall"):
            kids = list(e[2])
        elif k == "index":
            kids = [e[1]]
        elif k == "slice":
            kids = [e[1]]
        for c in kids:
            yield c
        for leaf in (("int", 1), ("str", "a"), ("bool", True)):
            yield leaf
        # recurse
        if k == "bin":
            for v in expr_variants(e[2]):
                yield (k, e[1], v, e[3])
            for v in expr_variants(e[3]):
                yield (k, e[1], e[2], v)
        elif k == "un":
            for v in expr_variants(e[2]):
                yield (k, e[1], v)
        elif k == "tern":
            for v in expr_variants(e[1]):
                yield (k, v, e[2], e[3])
            for v in expr_variants(e[2]):
                yield (k, e[1], v, e[3])
            for v in expr_variants(e[3]):
                yield (k, e[1], e[2], v)
        elif k in ("bcall", "ucall", "lcall"):
            for i, a in enumerate(e[2]):
                for v in expr_variants(a):
                    yield (k, e[1], e[2][:i] + [v] + e[2][i + 1:])
        elif k == "index":
            for v in expr_variants(e[1]):
                yield (k, v, e[2])
            for i, a in enumerate(e[2]):
                for v in expr_variants(a):
                    yield (k, e[1], e[2][:i] + [v] + e[2][i + 1:])
        elif k == "map":
            for i in range(len(e[1])):
                yield (k, e[1][:i] + e[1][i + 1:])
            for i, (kk, vv) in enumerate(e[1]):
                for v in expr_variants(vv):
                    yield (k, e[1][:i] + [(kk, v)] + e[1][i + 1:])
        elif k == "arr":
            for i in range(len(e[1])):
                yield (k, e[1][:i] + e[1][i + 1:])
            for i, vv in enumerate(e[1]):
                for v in expr_variants(vv):
                    yield (k, e[1][:i] + [v] + e[1][i + 1:])
        elif k == "funclit":
            for nb in del_in_list(e[3]):
                yield (k, e[1], e[2], nb)

    for p in del_in_list(list(prog)):
        yield p


# ------------------------------------------------------------------------------------------------
# generators

STR_POOL = ["pan", "eks", "wye", "zee", "hat", "ab", "abc", "b", "Q", "x_y", "k1", "de"]
KEY_POOL = ["pan", "eks", "wye", "zee", "hat"]
REGEXES = ["^p", "e", "an$", "^[a-k]", "a.", "e+", "^wye$", "z"]


class G:
    """Typed random generator.  Variable naming convention fixes the intended type:
       locals  i0..i3 int, s0..s2 str, b0..b1 bool, m0..m2 map, a0..a2 arr, v0..v2 any
       fields  x y i (ints from data), a b (strings from data), n0..n3 new fields
       oosvars ci0.. int, cs0.. str, cm0.. map, ca0.. arr
    """

    def __init__(self, rng, in_main=True, funcs=None, subrs=None):
        self.rng = rng
        self.in_main = in_main
        self.funcs = funcs or {}     # name -> (param types, return type)
        self.subrs = subrs or {}
        self.loop_depth = 0
        self.in_func = False
        self.ret_type = None
        self.depth_budget = 3
        self.assigned = set()        # names very likely assigned at this point (heuristic, raises yield)
        self.allow_rec = in_main
        self.safe = False            # when set, leaves that may be absent at run time are avoided

    # -- leaves
    def int_lit(self):
        r = self.rng
        return ("int", r.choice([0, 1, 2, 3, 4, 5, 7, 8, 10, 12, 17, 100, r.randint(0, 60), r.randint(0, 9999)]))

    def str_lit(self):
        return ("str", self.rng.choice(STR_POOL))

    def int_leaf(self):
        r = self.rng
        if self.safe:
            return self.int_leaf_present()
        c = []
        c += [self.int_lit()] * 4
        for n in ("i0", "i1", "i2"):
            if n in self.assigned:
                c += [("local", n)] * 3
        if self.allow_rec:
            c += [("field", "i"), ("field", "i"), ("ctx", "NR"), ("ctx", "NF")]
            for f in ("x", "y"):
                c.append(("bin", "??", ("field", f), ("int", r.randint(0, 9))) if r.random() < 0.6 else ("field", f))
        for n in ("ci0", "ci1"):
            if ("@" + n) in self.assigned:
                c += [("oos", n)] * 2
        if r.random() < 0.06:
            c += [("oos", "nosuch"), ("local", "nosuch")] + ([("field", "nosuch")] if self.allow_rec else [])
        return r.choice(c)

    def str_leaf(self):
        r = self.rng
        c = [self.str_lit()] * 3
        for n in ("s0", "s1"):
            if n in self.assigned:
                c += [("local", n)] * 3
        if self.allow_rec:
            c += [("field", "a"), ("field", "a")] + ([] if self.safe else [("field", "b")])
        for n in ("cs0",):
            if ("@" + n) in self.assigned:
                c += [("oos", n)] * 2
        return r.choice(c)

    def bool_leaf(self):
        r = self.rng
        c = [("bool", True), ("bool", False)]
        for n in ("b0", "b1"):
            if n in self.assigned:
                c += [("local", n)] * 3
        return r.choice(c)

    def map_leaf(self):
        r = self.rng
        c = []
        for n in ("m0", "m1"):
            if n in self.assigned:
                c += [("local", n)] * 3
        for n in ("cm0", "cm1"):
            if ("@" + n) in self.assigned:
                c += [("oos", n)] * 2
        if self.allow_rec:
            c += [("srec",)] * 2
        if not c or r.random() < 0.4:
            c.append(self.map_lit(1))
        return r.choice(c)

    def arr_leaf(self):
        r = self.rng
        c = []
        for n in ("a0", "a1"):
            if n in self.assigned:
                c += [("local", n)] * 3
        for n in ("ca0",):
            if ("@" + n) in self.assigned:
                c += [("oos", n)] * 2
        if not c or r.random() < 0.5:
            c.append(self.arr_lit(1))
        return r.choice(c)

    def key_expr(self):
        r = self.rng
        x = r.random()
        if x < 0.55:
            return ("str", r.choice(KEY_POOL + ["k", "n", "v"]))
        if x < 0.75:
            return ("int", r.randint(1, 5))
        if x < 0.9 and self.allow_rec:
            return r.choice([("field", "a"), ("field", "b"), ("ctx", "NR")])
        return self.str_leaf()

    def map_lit(self, d):
        r = self.rng
        n = r.choice([1, 1, 2, 2, 3, 3, 0])
        items = []
        for _ in range(n):
            if d > 0 and r.random() < 0.25:
                v = self.map_lit(d - 1)
            elif r.random() < 0.1:
                v = self.arr_lit(0)
            else:
                v = self.scalar(d=1)
            items.append((self.key_expr(), v))
        return ("map", items)

    def arr_lit(self, d):
        r = self.rng
        n = r.choice([0, 1, 2, 3, 3, 4, 5])
        xs = []
        for _ in range(n):
            if d > 0 and r.random() < 0.15:
                xs.append(r.choice([self.arr_lit(0), self.map_lit(0)]))
            elif r.random() < 0.5:
                xs.append(self.int_leaf_present())
            elif r.random() < 0.6:
                xs.append(("bin", r.choice(["+", "*", "-"]), self.int_leaf_present(), self.int_lit()))
            else:
                xs.append(self.str_lit())
        return ("arr", xs)

    def scalar(self, d=2):
        r = self.rng
        return self.expr(r.choice(["int", "int", "str", "bool"]), d)

    # -- typed expressions
    def expr(self, ty, d=None):
        if d is None:
            d = self.depth_budget
        r = self.rng
        if ty == "any":
            ty = r.choice(["int", "int", "str", "bool", "map", "arr"])
        if ty == "int":
            return self.int_expr(d)
        if ty == "str":
            return self.str_expr(d)
        if ty == "bool":
            return self.bool_expr(d)
        if ty == "map":
            return self.map_expr(d)
        if ty == "arr":
            return self.arr_expr(d)
        raise ValueError(ty)

    def int_expr(self, d):
        r = self.rng
        if d <= 0 or r.random() < 0.3:
            return self.int_leaf()
        x = r.random()
        if x < 0.45:
            op = r.choice(["+", "-", "*", "+", "-", "*", "//", "%", "/", "**", "&", "|", "^", "<<", ">>", ">>>", "<=>"])
            a = self.int_expr(d - 1)
            if op in ("//", "%", "/"):
                b = ("int", r.choice([1, 2, 3, 4, 5, 7, 10]))
                if op == "/" and r.random() < 0.7:
                    # keep the quotient exact most of the time
                    a = ("bin", "*", a, b)
            elif op == "**":
                b = ("int", r.choice([0, 1, 2, 2, 3]))
                if r.random() < 0.7:
                    a = ("int", r.randint(0, 9))
            elif op in ("<<", ">>", ">>>"):
                b = ("int", r.randint(0, 5))
            else:
                b = self.int_expr(d - 1)
            return ("bin", op, a, b)
        if x < 0.55:
            return ("un", r.choice(["-", "-", "+", "~"]), self.int_expr(d - 1))
        if x < 0.63:
            return ("tern", self.bool_expr(d - 1), self.int_expr(d - 1), self.int_expr(d - 1))
        if x < 0.70:
            return ("bin", r.choice(["??", "???"]), self.int_leaf(), self.int_expr(d - 1))
        if x < 0.80:
            f = r.choice(["length", "strlen", "abs", "min", "max", "depth", "leafcount", "length"])
            if f == "length":
                return ("bcall", f, [r.choice([self.map_leaf, self.arr_leaf])()])
            if f == "strlen":
                return ("bcall", f, [self.str_expr(d - 1)])
            if f == "abs":
                return ("bcall", f, [self.int_expr(d - 1)])
            if f in ("min", "max"):
                return ("bcall", f, [self.int_expr(d - 1) for _ in range(r.choice([1, 2, 2, 3]))])
            return ("bcall", f, [r.choice([self.map_leaf, self.arr_leaf])()])
        if x < 0.88:
            return self.index_expr("int")
        if x < 0.94 and self.funcs:
            c = self.ucall("int", d)
            if c is not None:
                return c
        if x < 0.97:
            args = self._reduce_args(d)
            return ("bcall", "reduce" if len(args) == 2 else "fold", args)
        return self.int_leaf()

    def _reduce_args(self, d):
        r = self.rng
        arr = r.choice([("arr", [self.int_lit() for _ in range(r.randint(1, 4))]), self.arr_of_int_leaf()])
        op = r.choice(["+", "*", "-", "|"])
        f = ("funclit", [(None, "acc"), (None, "e")], None,
             [("return", ("bin", op, ("local", "acc"), ("local", "e")))])
        if r.random() < 0.5:
            return [arr, f]
        return [arr, f, self.int_lit()]

    def arr_of_int_leaf(self):
        if "a0" in self.assigned and self.rng.random() < 0.5:
            return ("local", "a0")
        return ("arr", [self.int_lit() for _ in range(self.rng.randint(1, 4))])

    def index_expr(self, want):
        r = self.rng
        x = r.random()
        if x < 0.4:
            base = self.arr_leaf()
            idx = r.choice([("int", r.randint(1, 4)), ("un", "-", ("int", r.randint(1, 3))), self.int_expr(0)])
            return ("index", base, [idx])
        if x < 0.8:
            base = self.map_leaf()
            return ("index", base, [self.key_expr()])
        base = r.choice([("oos", "cm0"), ("local", "m0")])
        return ("index", base, [self.key_expr(), self.key_expr()])

    def str_expr(self, d):
        r = self.rng
        if d <= 0 or r.random() < 0.35:
            return self.str_leaf()
        x = r.random()
        if x < 0.4:
            a = r.choice([self.str_expr, self.str_expr, self.int_expr])(d - 1)
            b = r.choice([self.str_expr, self.str_expr, self.int_expr])(d - 1)
            return ("bin", ".", a, b)
        if x < 0.5:
            return ("tern", self.bool_expr(d - 1), self.str_expr(d - 1), self.str_expr(d - 1))
        if x < 0.6:
            return ("bcall", r.choice(["toupper", "tolower", "typeof", "string"]), [r.choice([self.str_expr, self.str_expr, self.any_leaf_expr])(d - 1)])
        if x < 0.7:
            s = self.str_leaf()
            lo = r.choice([None, ("int", r.randint(1, 3)), ("un", "-", ("int", r.randint(1, 3)))])
            hi = r.choice([None, ("int", r.randint(1, 5)), ("un", "-", ("int", r.randint(1, 2)))])
            return ("slice", s, lo, hi)
        if x < 0.78:
            return ("bcall", r.choice(["joink", "joinv"]), [r.choice([self.map_leaf, self.arr_leaf])(), ("str", r.choice([",", ":", "-"]))])
        if x < 0.84:
            return ("bin", r.choice(["??", "???"]), self.str_leaf(), self.str_expr(d - 1))
        if x < 0.9 and self.funcs:
            c = self.ucall("str", d)
            if c is not None:
                return c
        if x < 0.95 and self.allow_rec:
            return ("posname", ("int", r.randint(1, 4)))
        return self.str_leaf()

    def any_leaf_expr(self, d=0):
        r = self.rng
        return r.choice([self.int_leaf, self.str_leaf, self.bool_leaf, self.map_leaf, self.arr_leaf])()

    def bool_expr(self, d):
        r = self.rng
        if d <= 0 or r.random() < 0.15:
            if r.random() < 0.6:
                return ("bin", r.choice(["<", "<=", ">", ">=", "==", "!="]), self.int_leaf_present(), self.int_lit())
            return self.bool_leaf()
        x = r.random()
        if x < 0.45:
            op = r.choice(["<", "<=", ">", ">=", "==", "!="])
            saved = self.safe
            self.safe = True
            try:
                if x < 0.35:
                    return ("bin", op, self.int_expr(d - 1), self.int_expr(d - 1))
                return ("bin", op, self.str_expr(d - 1), self.str_expr(d - 1))
            finally:
                self.safe = saved
        if x < 0.62:
            return ("bin", r.choice(["&&", "||", "^^", "&&", "||"]), self.bool_expr(d - 1), self.bool_expr(d - 1))
        if x < 0.70:
            return ("un", "!", self.bool_expr(d - 1))
        if x < 0.78:
            return ("bin", r.choice(["=~", "!=~"]), self.str_expr(d - 1), ("str", r.choice(REGEXES)))
        if x < 0.90:
            f = r.choice(["is_present", "is_absent", "is_empty", "is_not_empty", "is_null", "is_not_null", "is_map", "is_array",
                          "is_int", "is_string", "is_numeric", "is_boolean", "is_empty_map", "is_nonempty_map", "haskey"])
            if f == "haskey":
                if r.random() < 0.5:
                    return ("bcall", f, [self.map_leaf(), self.key_expr()])
                return ("bcall", f, [self.arr_leaf(), r.choice([self.int_lit(), ("un", "-", self.int_lit())])])
            leaf = self.any_leaf_expr()
            if r.random() < 0.3 and self.allow_rec:
                leaf = r.choice([("field", "x"), ("field", "nosuch"), ("field", "b"), ("oos", "nosuch"), ("local", "nosuch")])
            return ("bcall", f, [leaf])
        if x < 0.94:
            return ("tern", self.bool_expr(d - 1), self.bool_expr(d - 1), self.bool_expr(d - 1))
        if x < 0.97:
            arr = self.arr_of_int_leaf()
            f = ("funclit", [(None, "e")], None, [("return", ("bin", r.choice(["<", ">", "=="]), ("local", "e"), self.int_lit()))])
            return ("bcall", r.choice(["any", "every"]), [arr, f])
        return self.bool_leaf()

    def int_leaf_present(self):
        r = self.rng
        c = [self.int_lit()]
        for n in ("i0", "i1", "i2"):
            if n in self.assigned:
                c += [("local", n)] * 3
        if self.allow_rec:
            c += [("ctx", "NR"), ("ctx", "NF"), ("bin", "??", ("field", "x"), ("int", 0))]
        return r.choice(c)

    def map_expr(self, d):
        r = self.rng
        if d <= 0 or r.random() < 0.35:
            return self.map_leaf()
        x = r.random()
        if x < 0.35:
            return self.map_lit(2)
        if x < 0.5:
            return ("bcall", "mapsum", [self.map_expr(d - 1) for _ in range(r.choice([1, 2, 2, 3]))])
        if x < 0.6:
            return ("bcall", "mapdiff", [self.map_expr(d - 1) for _ in range(r.choice([1, 2, 2]))])
        if x < 0.75:
            ks = [self.key_expr() for _ in range(r.choice([1, 1, 2]))]
            if r.random() < 0.3:
                ks = [("arr", ks)]
            return ("bcall", r.choice(["mapexcept", "mapexcept", "mapselect"]), [self.map_expr(d - 1)] + ks)
        if x < 0.85:
            m = self.map_leaf()
            kind = r.choice(["apply", "select", "sort", "sortf"])
            if kind == "apply":
                f = ("funclit", [(None, "k"), (None, "v")], None,
                     [("return", ("map", [(r.choice([("local", "k"), ("bcall", "toupper", [("local", "k")])]),
                                           r.choice([("local", "v"), ("bin", ".", ("local", "v"), ("str", "_")), ("int", 1)]))]))])
                return ("bcall", "apply", [m, f])
            if kind == "select":
                f = ("funclit", [(None, "k"), (None, "v")], None,
                     [("return", r.choice([("bin", "=~", ("local", "k"), ("str", r.choice(REGEXES))),
                                           ("bcall", "is_int", [("local", "v")]),
                                           ("bin", "!=", ("local", "k"), ("str", r.choice(KEY_POOL)))]))])
                return ("bcall", "select", [m, f])
            if kind == "sort":
                return ("bcall", "sort", [m] + ([("str", "r")] if r.random() < 0.5 else []))
            f = ("funclit", [(None, "ak"), (None, "av"), (None, "bk"), (None, "bv")], None,
                 [("return", ("bin", "<=>", *r.choice([(("local", "ak"), ("local", "bk")), (("local", "bk"), ("local", "ak"))])))])
            return ("bcall", "sort", [m, f])
        if x < 0.92 and self.funcs:
            c = self.ucall("map", d)
            if c is not None:
                return c
        return self.map_leaf()

    def arr_expr(self, d):
        r = self.rng
        if d <= 0 or r.random() < 0.3:
            return self.arr_leaf()
        x = r.random()
        if x < 0.3:
            return self.arr_lit(1)
        if x < 0.42:
            return ("bcall", "append", [self.arr_expr(d - 1), self.scalar(1)])
        if x < 0.52:
            return ("bcall", "concat", [r.choice([self.arr_expr, self.arr_expr, self.int_expr])(d - 1) for _ in range(r.choice([2, 2, 3]))])
        if x < 0.62:
            return ("bcall", r.choice(["get_keys", "get_values"]), [r.choice([self.map_leaf, self.arr_leaf])()])
        if x < 0.74:
            a = self.arr_leaf()
            lo = r.choice([None, ("int", r.randint(1, 3)), ("un", "-", ("int", r.randint(1, 3))), ("int", r.randint(1, 9))])
            hi = r.choice([None, ("int", r.randint(1, 5)), ("un", "-", ("int", r.randint(1, 2))), ("int", r.randint(1, 9))])
            return ("slice", a, lo, hi)
        if x < 0.9:
            a = self.arr_of_int_leaf()
            kind = r.choice(["apply", "select", "sort", "sortf"])
            if kind == "apply":
                f = ("funclit", [(None, "e")], None, [("return", ("bin", r.choice(["+", "*", "-", "**"]), ("local", "e"), ("int", r.randint(1, 3))))])
                return ("bcall", "apply", [a, f])
            if kind == "select":
                f = ("funclit", [(None, "e")], None, [("return", ("bin", r.choice(["<", ">", "!="]), ("bin", "%", ("local", "e"), ("int", r.randint(2, 5))), ("int", r.randint(0, 2))))])
                return ("bcall", "select", [a, f])
            if kind == "sort":
                return ("bcall", "sort", [a] + ([("str", "r")] if r.random() < 0.5 else []))
            f = ("funclit", [(None, "p"), (None, "q")], None,
                 [("return", ("bin", "<=>", *r.choice([(("local", "p"), ("local", "q")), (("local", "q"), ("local", "p"))])))])
            return ("bcall", "sort", [a, f])
        if x < 0.95:
            return ("bcall", "splitax", [("str", r.choice(["a,b,c", "pan:eks", "x"])), ("str", r.choice([",", ":"]))])
        return self.arr_leaf()

    def ucall(self, want, d):
        r = self.rng
        cands = [(n, sig) for n, sig in self.funcs.items() if sig[1] == want]
        if not cands:
            return None
        n, (ptypes, rt) = r.choice(cands)
        return ("ucall", n, [self.expr(t, max(0, d - 1)) for t in ptypes])


# ------------------------------------------------------------------------------------------------
# input records

WIDE_FIELDS = ["w%d" % i for i in range(10)]


def gen_records(rng, n=None, hetero=None, wide=None):
    """List of ordered dicts: a, b strings; i, x, y ints; some fields missing / extra (heterogeneous).
    wide: 5-10 more fields w0.. per record, so that the records have 10-16 fields and a program that adds or removes a
    few crosses 11 -> 12 -> 13 (maps keep a key index from 12 entries on; it has to stay in step with the entry list
    under every kind of assignment, positional rename, unset and whole-record replacement)."""
    if n is None:
        n = rng.choice([0, 1, 2, 3, 4, 5, 6, 8, 12])
    if hetero is None:
        hetero = rng.random() < 0.35
    if wide is None:
        wide = rng.random() < 0.2
    nwide = rng.choice([5, 6, 6, 7, 7, 8, 10]) if wide else 0
    wide_first = wide and rng.random() < 0.25
    recs = []
    for k in range(n):
        r = {}
        if wide_first:
            for w in WIDE_FIELDS[:nwide]:
                r[w] = rng.choice([rng.randint(0, 50), rng.choice(KEY_POOL)])
        r["a"] = rng.choice(KEY_POOL[:3])
        if not hetero or rng.random() > 0.15:
            r["b"] = rng.choice(KEY_POOL[:4])
            if hetero and rng.random() < 0.12:
                r["b"] = ""                         # an empty value that comes from the data, not from a literal
        r["i"] = k + 1
        if not hetero or rng.random() > 0.15:
            r["x"] = rng.randint(-20, 100)
            if hetero and rng.random() < 0.12:
                r["x"] = rng.randint(-20, 100) + rng.choice([0.25, 0.5, 0.75])      # a float from the data (exact in binary)
        if not hetero or rng.random() > 0.3:
            r["y"] = rng.randint(0, 9)
        if hetero and rng.random() < 0.2:
            r["z"] = rng.choice(["u", 3, "v w"])
        if wide and not wide_first:
            for w in WIDE_FIELDS[:nwide - (1 if hetero and rng.random() < 0.3 else 0)]:
                r[w] = rng.choice([rng.randint(0, 50), rng.choice(KEY_POOL)])
        if rng.random() < 0.15:
            keys = list(r.keys())
            rng.shuffle(keys)
            r = {kk: r[kk] for kk in keys}
        recs.append(r)
    return recs


# ------------------------------------------------------------------------------------------------
# statements and programs (free-form)

LOCALS = {"int": ["i0", "i1", "i2"], "str": ["s0", "s1"], "bool": ["b0", "b1"], "map": ["m0", "m1"], "arr": ["a0", "a1"]}
TYPEKW = {"int": ["int", "num", "var"], "str": ["str", "var"], "bool": ["bool", "var"], "map": ["map", "var"], "arr": ["arr", "var"]}
NEWFIELDS = ["n0", "n1", "n2", "new field"]


class PG(G):
    def __init__(self, rng):
        G.__init__(self, rng, in_main=True)
        self.nest = 0
        self.max_nest = 3
        self.has_array_oos = False
        self.verb = "put"
        self.in_subr = False
        self.params = set()

    # ---- blocks
    def block(self, nmin=1, nmax=3, loop=False):
        saved = set(self.assigned)
        self.nest += 1
        if loop:
            self.loop_depth += 1
        try:
            n = self.rng.randint(nmin, nmax)
            out = []
            for _ in range(n):
                out.extend(self.stmt())
            return out
        finally:
            if loop:
                self.loop_depth -= 1
            self.nest -= 1
            self.assigned = saved

    def local_assign(self, ty=None, decl=None):
        r = self.rng
        ty = ty or r.choice(["int", "int", "str", "bool", "map", "arr"])
        name = r.choice(LOCALS[ty])
        e = self.expr(ty, r.choice([1, 2, 2, 3]))
        if decl is None:
            decl = r.random() < 0.35
        if name in self.params:
            decl = False      # re-declaring a parameter is a (known, separately tested) error case
        self.assigned.add(name)
        if decl:
            return [("decl", r.choice(TYPEKW[ty]), name, e)]
        return [("assign", ("local", name), e)]

    def field_assign(self):
        r = self.rng
        x = r.random()
        if x < 0.45:
            lv = ("field", r.choice(NEWFIELDS))
        elif x < 0.75:
            lv = ("field", r.choice(["x", "y", "a", "b", "i"]))
        elif x < 0.85:
            lv = ("fieldx", r.choice([("bin", ".", ("field", "a"), ("str", "_k")), ("str", "n1"), ("posname", ("int", r.randint(1, 3)))]))
        elif x < 0.95:
            lv = ("posval", ("int", r.randint(1, 7)))
        elif x < 0.97:
            return [("assign", ("posname", ("int", r.randint(1, 7))), ("str", r.choice(["renamed", "R2", "new name"])))]
        else:
            lv = ("field", "n3")
        ty = r.choice(["int", "int", "str", "bool", "map", "arr", "int"])
        return [("assign", lv, self.expr(ty, r.choice([1, 2, 3])))]

    def oos_stmt(self):
        r = self.rng
        x = r.random()
        rec = self.allow_rec
        if x < 0.2:
            n = r.choice(["ci0", "ci1"])
            self.assigned.add("@" + n)
            return [("opassign", r.choice(["+", "+", "-", "*"]), ("oos", n), self.int_expr(1))]
        if x < 0.3:
            n = r.choice(["ci0", "ci1"])
            self.assigned.add("@" + n)
            return [("assign", ("oos", n), self.int_expr(2))]
        if x < 0.4:
            self.assigned.add("@cs0")
            return [("opassign", ".", ("oos", "cs0"), self.str_expr(1))]
        if x < 0.6:
            n = r.choice(["cm0", "cm1"])
            self.assigned.add("@" + n)
            k1 = self.key_expr()
            if r.random() < 0.5:
                return [("opassign", r.choice(["+", "+", "*"]), ("index", ("oos", n), [k1]), self.int_expr(1))]
            return [("assign", ("index", ("oos", n), [k1]), self.scalar(1))]
        if x < 0.75:
            n = "cm2"
            self.assigned.add("@" + n)
            if rec and r.random() < 0.7:
                ks = [("field", "a"), r.choice([("field", "i"), ("ctx", "NR"), ("str", "k"), ("field", "a")])]
            else:
                ks = [self.key_expr(), self.key_expr()]
            out = [("opassign", "+", ("index", ("oos", n), ks), self.int_leaf_present())]
            if r.random() < 0.5 and self.nest == 0:
                self.assigned.add("@cm2b")
                out.append(("opassign", "+", ("index", ("oos", "cm2b"), ks), ("int", 1)))
            return out
        if x < 0.85 and rec:
            self.assigned.add("@cr")
            return [("assign", ("index", ("oos", "cr"), [("ctx", "NR")]), r.choice([("srec",), ("bcall", "mapexcept", [("srec",), ("str", "b")])]))]
        if x < 0.92 and self.has_array_oos:
            self.assigned.add("@ca0")
            idx = ("ctx", "NR") if rec and r.random() < 0.6 else ("bin", "+", ("bcall", "length", [("oos", "ca0")]), ("int", r.choice([1, 1, 1, 2])))
            return [("assign", ("index", ("oos", "ca0"), [idx]), self.int_expr(1))]
        n = r.choice(["cm0", "ci0", "cs0"])
        self.assigned.add("@" + n)
        return [("assign", ("oos", n), self.expr({"cm0": "map", "ci0": "int", "cs0": "str"}[n], 2))]

    def indexed_local(self):
        r = self.rng
        if r.random() < 0.5:
            n = r.choice(LOCALS["map"])
            pre = []
            if n not in self.assigned:
                pre = [("assign", ("local", n), self.map_lit(1))]
                self.assigned.add(n)
            ks = [self.key_expr() for _ in range(r.choice([1, 1, 2, 3]))]
            if r.random() < 0.4:
                return pre + [("opassign", r.choice(["+", ".", "*"]), ("index", ("local", n), ks), self.scalar(1) if False else self.int_expr(1))]
            return pre + [("assign", ("index", ("local", n), ks), self.expr(r.choice(["int", "str", "map", "arr"]), 1))]
        n = r.choice(LOCALS["arr"])
        pre = []
        if n not in self.assigned:
            pre = [("assign", ("local", n), self.arr_lit(0))]
            self.assigned.add(n)
        idx = r.choice([("int", r.randint(1, 6)), ("un", "-", ("int", r.randint(1, 3))),
                        ("bin", "+", ("bcall", "length", [("local", n)]), ("int", r.choice([1, 1, 2, 3]))), ("int", 0) if r.random() < 0.1 else ("int", 1)])
        return pre + [("assign", ("index", ("local", n), [idx]), self.scalar(1))]

    def unset_stmt(self):
        r = self.rng
        c = [("local", r.choice(["i0", "s0", "m0", "a0"])), ("oos", r.choice(["ci0", "cm0", "cs0"])),
             ("index", ("oos", r.choice(["cm0", "cm2"])), [self.key_expr()]),
             ("index", ("local", "m0"), [self.key_expr()]),
             ("index", ("local", "a0"), [r.choice([("int", 1), ("un", "-", ("int", 1)), ("int", 2)])])]
        if self.allow_rec:
            c += [("field", r.choice(["x", "y", "b", "n0", "nosuch"]))] * 3 + [("fieldx", ("str", "a"))]
        lvs = [r.choice(c) for _ in range(r.choice([1, 1, 2]))]
        for lv in lvs:
            if lv[0] == "local":
                self.assigned.discard(lv[1])
            if lv[0] == "oos":
                self.assigned.discard("@" + lv[1])
        return [("unset", lvs)]

    def print_stmt(self):
        r = self.rng
        x = r.random()
        if x < 0.55:
            return [("print", [self.expr(r.choice(["int", "str", "bool", "int", "str"]), r.choice([1, 2, 3]))])]
        if x < 0.7:
            return [("print", [self.scalar(1) for _ in range(r.choice([2, 3]))])]
        if x < 0.8:
            return [("print", [self.expr(r.choice(["map", "arr"]), 2)])]
        if x < 0.87:
            return [("printn", [self.scalar(1)]), ("print", [self.str_expr(1)])]
        if x < 0.9:
            return [("print", [])]
        if x < 0.95:
            return [("dump", r.choice([None, self.expr(r.choice(["map", "arr", "int", "str"]), 1)]))]
        return [("print", [("bcall", "typeof", [self.any_leaf_expr()])])]

    def if_stmt(self):
        r = self.rng
        nb = r.choice([1, 1, 2, 3])
        branches = [(self.bool_expr(r.choice([1, 2])), self.block(1, 2)) for _ in range(nb)]
        els = self.block(1, 2) if r.random() < 0.5 else None
        return [("if", branches, els)]

    def loop_stmt(self):
        r = self.rng
        x = r.random()
        if x < 0.2:
            # bounded while with a counter local
            c = r.choice(["w0", "w1"])
            k = r.randint(0, 4)
            self.assigned.add(c)
            body = [("opassign", "+", ("local", c), ("int", 1))] + self.block(1, 2, loop=True)
            return [("assign", ("local", c), ("int", 0)), ("while", ("bin", "<", ("local", c), ("int", k)), body)]
        if x < 0.35:
            c = r.choice(["w0", "w1"])
            k = r.randint(0, 3)
            self.assigned.add(c)
            body = [("opassign", "+", ("local", c), ("int", 1))] + self.block(1, 2, loop=True)
            return [("assign", ("local", c), ("int", 0)), ("dowhile", body, ("bin", "<", ("local", c), ("int", k)))]
        if x < 0.5:
            v = r.choice(["e", "k"])
            src = r.choice([self.map_leaf, self.arr_leaf])()
            saved = set(self.assigned)
            body = self.block(1, 3, loop=True)
            return [("for1", (None, v), src, body)]
        if x < 0.75:
            src = r.choice([self.map_leaf, self.map_leaf, self.arr_leaf])()
            body_pre = [r.choice([("print", [("bin", ".", ("local", "k"), ("str", ":"))]), ("opassign", ".", ("oos", "cs0"), ("local", "k"))])] if r.random() < 0.4 else []
            body = body_pre + self.block(1, 2, loop=True)
            return [("for2", (None, "k"), (None, "v"), src, body)]
        if x < 0.83:
            src = r.choice([("oos", "cm2"), ("oos", "cr"), ("oosall",), ("local", "m0")])
            body = [("print", [("local", "k1"), ("local", "k2"), ("bcall", "typeof", [("local", "v")])])] + self.block(0, 1, loop=True)
            return [("formulti", ["k1", "k2"], "v", src, body)]
        # C-style
        v = r.choice(["j", "c"])
        k = r.randint(0, 4)
        typ = r.choice([None, None, "int", "num", "var"])
        init = [("decl", typ, v, ("int", 0))] if typ else [("assign", ("local", v), ("int", 0))]
        step = [("opassign", "+", ("local", v), ("int", 1))]
        if r.random() < 0.3:
            init.append(("decl", "int", "d2", ("int", 1)))
            step.append(("opassign", "*", ("local", "d2"), ("int", 2)))
        saved = set(self.assigned)
        self.assigned.add(v)
        body = self.block(1, 2, loop=True)
        self.assigned = saved
        if not typ and r.random() < 0.5:
            # the loop variable exists outside: the loop updates it
            self.assigned.add(v)
            return [("assign", ("local", v), ("int", r.randint(5, 9))), ("forc", init, ("bin", "<", ("local", v), ("int", k)), step, body),
                    ("print", [("local", v)])]
        return [("forc", init, ("bin", "<", ("local", v), ("int", k)), step, body), ("print", [("bcall", "typeof", [("local", v)])])]

    def emit_stmt(self):
        r = self.rng
        x = r.random()
        maps_ok = [n for n in ("cm0", "cm1", "cm2", "cr") if ("@" + n) in self.assigned]
        scal_ok = [n for n in ("ci0", "ci1", "cs0") if ("@" + n) in self.assigned]
        if x < 0.2 or (not maps_ok and not scal_ok and x < 0.6):
            e = self.map_expr(1)
            if e[0] in ("local", "oos") and r.random() < 0.7:
                e = ("bcall", "mapsum", [e])
            return [("emit1", e)]
        if x < 0.32 and scal_ok:
            names = r.sample(scal_ok, r.randint(1, len(scal_ok)))
            if r.random() < 0.2:
                names.append("nosuch")
            return [("emitf", names)]
        kind = r.choice(["emit", "emit", "emitp"])
        if x < 0.5:
            em = r.choice([("map", [(("str", "u"), self.scalar(1)), (("str", "w"), self.scalar(1))]), ("bcall", "mapsum", [self.map_leaf(), ("map", [(("str", "nr"), self.int_leaf())])]),
                           ("oosall",), ("all",), ("bcall", "mapexcept", [self.map_leaf(), self.key_expr()])])
            if em[0] == "bcall":
                kind = "emit"
            return [("emit", kind, False, [em], [])]
        if x < 0.8 and (maps_ok or scal_ok):
            n = r.choice(maps_ok * 3 + scal_ok)
            em = ("oos", n)
            depth = {"cm0": 1, "cm1": 1, "cm2": 2, "cr": 2}.get(n, 0)
            nn = r.choice([0, depth, depth, max(0, depth - 1), r.randint(0, 2)])
            names = [("str", s) for s in r.sample(["g1", "g2", "g3"], nn)]
            pre = []
            if r.random() < 0.2 and self.nest > 0:
                pre = [("assign", ("local", "m1"), em)]
                em = ("local", "m1")
            return pre + [("emit", kind, False, [em], names)]
        if "@cm2" in self.assigned and "@cm2b" in self.assigned:
            ems = [("oos", "cm2"), ("oos", "cm2b")]
            nn = r.choice([2, 2, 1, 0]) if kind == "emit" else r.choice([0, 1, 2])
        elif len(scal_ok) >= 2:
            ems = [("oos", n) for n in r.sample(scal_ok, 2)]
            nn = 0
        else:
            return [("emit1", self.map_expr(1))]
        names = [("str", s) for s in r.sample(["g1", "g2", "g3"], nn)]
        return [("emit", kind, True, ems, names)]

    def call_stmts(self):
        r = self.rng
        out = []
        if self.subrs and r.random() < 0.5:
            n, ptypes = r.choice(list(self.subrs.items()))
            return [("call", n, [self.expr(t, 1) for t in ptypes])]
        if r.random() < 0.5 and not self.in_subr:
            # function literal bound to a local, then called; it may read an enclosing local
            body_e = r.choice([("bin", "+", ("local", "p"), ("local", "i0")) if "i0" in self.assigned else ("bin", "+", ("local", "p"), ("int", 1)),
                               ("bin", ".", ("local", "p"), ("str", "!")),
                               ("bin", "*", ("local", "p"), ("int", 2))])
            out.append(("assign", ("local", "f0"), ("funclit", [(r.choice([None, "var"]), "p")], None, [("return", body_e)])))
            out.append(r.choice([("print", [("lcall", "f0", [self.int_expr(1)])]),
                                 ("assign", ("local", "v0"), ("lcall", "f0", [self.int_expr(1)]))]))
            return out
        if self.funcs:
            n, (ptypes, rt) = r.choice(list(self.funcs.items()))
            tgt = r.choice([("local", LOCALS[rt][0])] + ([("field", "n2")] if self.allow_rec else []) + [("oos", "cv")])
            if tgt[0] == "local":
                self.assigned.add(tgt[1])
            return [("assign", tgt, ("ucall", n, [self.expr(t, 1) for t in ptypes]))]
        return self.local_assign()

    def stmt(self):
        r = self.rng
        deep = self.nest >= self.max_nest
        x = r.random()
        rec = self.allow_rec
        if x < 0.14:
            return self.local_assign()
        if x < 0.28:
            return self.field_assign() if rec else self.local_assign()
        if x < 0.40:
            return self.oos_stmt()
        if x < 0.46:
            return self.indexed_local()
        if x < 0.50:
            if rec and r.random() < 0.5:
                return [("assign", ("srec",), r.choice([("bcall", "mapexcept", [("srec",), ("str", r.choice(["b", "x", "i"]))]),
                                                        ("bcall", "mapsum", [("map", [(("str", "first"), self.scalar(1))]), ("srec",)]),
                                                        ("map", [(("str", "only"), self.scalar(1))] + self.map_lit(1)[1])]))]
            return self.unset_stmt()
        if x < 0.54:
            return self.unset_stmt()
        if x < 0.66:
            return self.print_stmt()
        if x < 0.74 and not deep:
            return self.if_stmt()
        if x < 0.78 and not deep:
            return [("cond", self.bool_expr(2), self.block(1, 2))]
        if x < 0.88 and not deep:
            return self.loop_stmt()
        if x < 0.93:
            return self.emit_stmt()
        if x < 0.96:
            return self.call_stmts()
        if x < 0.975 and self.loop_depth > 0:
            c = self.bool_expr(1)
            return [("if", [(c, [(r.choice(["break", "continue"]),)])], None)]
        if x < 0.985 and rec and self.verb == "put" and not self.in_func and (self.nest == 0 or r.random() < 0.3):
            return [("filter", self.bool_expr(2))]
        if self.in_func and r.random() < 0.5:
            return [("if", [(self.bool_expr(1), [("return", self.expr(self.ret_type, 1) if self.ret_type else None)])], None)]
        return self.local_assign()

    # ---- functions
    def gen_func(self, name):
        r = self.rng
        kind = r.choice(["rec", "str", "map", "free", "arr", "nest2", "nest3"])
        saved = (self.allow_rec, self.assigned, self.in_func, self.ret_type, self.nest, self.loop_depth)
        self.params = {"i0", "i1", "i2", "s0", "m0", "a0"}
        self.allow_rec = False
        self.in_func = True
        self.nest = 1
        self.loop_depth = 0
        try:
            if kind == "rec":
                typed = r.random() < 0.6
                self.assigned = {"i0"}
                self.ret_type = "int"
                k = r.randint(1, 3)
                body = [("if", [(("bin", "<=", ("local", "i0"), ("int", 0)), [("return", ("int", r.randint(0, 3)))])], None),
                        ("decl", r.choice(["var", "int", "num"]), "t", ("bin", r.choice(["*", "+"]), ("local", "i0"), ("int", k)))]
                body += self.block(0, 1)
                body += [("assign", ("local", "u"), ("ucall", name, [("bin", "-", ("local", "i0"), ("int", r.choice([1, 1, 2])))])),
                         ("return", ("bin", r.choice(["+", "-", "*"]), ("local", "t"), ("local", "u")))]
                fn = ("func", name, [("int" if typed else None, "i0")], "int" if typed else None, body)
                sig = (["int"], "int")
                # keep recursion arguments small
                sig = (["smallint"], "int")
            elif kind in ("nest2", "nest3"):
                # recursion nested inside the arguments of a call to the same function (decreasing first argument)
                typed = r.random() < 0.4
                t = "int" if typed else None
                self.assigned = {"i0", "i1"}
                self.ret_type = "int"
                dec = ("bin", "-", ("local", "i0"), ("int", 1))
                op = r.choice(["+", "-", "*"])
                k = r.randint(1, 3)
                if kind == "nest2":
                    inner = ("ucall", name, [dec, ("bin", op, ("local", "i1"), ("int", k))])
                    outer = r.choice([("ucall", name, [dec, inner]),
                                      ("ucall", name, [dec, ("bin", "+", inner, ("ucall", name, [dec, ("local", "i0")]))])])
                    params = [(t, "i0"), (t, "i1")]
                    sig = (["tinyint", "int"], "int")
                else:
                    inner = ("ucall", name, [dec, ("local", "i2"), ("bin", op, ("local", "i1"), ("int", k))])
                    outer = r.choice([("ucall", name, [dec, ("local", "i1"), inner]), ("ucall", name, [dec, inner, ("local", "i2")]),
                                      ("ucall", name, [dec, inner, ("ucall", name, [dec, ("local", "i2"), ("local", "i1")])])])
                    params = [(t, "i0"), (t, "i1"), (t, "i2")]
                    sig = (["tinyint", "int", "int"], "int")
                    self.assigned.add("i2")
                body = [("if", [(("bin", "<=", ("local", "i0"), ("int", 0)), [("return", ("bin", "+", ("local", "i1"), ("int", r.randint(0, 3))))])], None)]
                body += self.block(0, 1)
                body += [("return", outer)]
                fn = ("func", name, params, "int" if typed else None, body)
            elif kind == "str":
                self.assigned = {"s0", "i0"}
                self.ret_type = "str"
                body = self.block(0, 2) + [("return", self.str_expr(2))]
                fn = ("func", name, [(r.choice(["str", None]), "s0"), (r.choice(["int", "num", None]), "i0")], r.choice(["str", None]), body)
                sig = (["str", "int"], "str")
            elif kind == "map":
                self.assigned = {"m0"}
                self.ret_type = "map"
                body = [("assign", ("index", ("local", "m0"), [self.key_expr()]), self.scalar(1))] + self.block(0, 2) + [("return", ("local", "m0"))]
                fn = ("func", name, [(r.choice(["map", None]), "m0")], r.choice(["map", None]), body)
                sig = (["map"], "map")
            elif kind == "arr":
                self.assigned = {"a0"}
                self.ret_type = "arr"
                body = [("assign", ("index", ("local", "a0"), [r.choice([("int", 1), ("un", "-", ("int", 1)), ("bin", "+", ("bcall", "length", [("local", "a0")]), ("int", 1))])]), self.scalar(1))] \
                    + self.block(0, 1) + [("return", ("local", "a0"))]
                fn = ("func", name, [(r.choice(["arr", None]), "a0")], r.choice(["arr", None]), body)
                sig = (["arr1"], "arr")
            else:
                self.assigned = {"i0", "i1"}
                self.ret_type = "int"
                body = self.block(1, 3) + [("return", self.int_expr(2))]
                fn = ("func", name, [(None, "i0"), (None, "i1")], None, body)
                sig = (["int", "int"], "int")
            return fn, sig
        finally:
            self.params = set()
            self.allow_rec, self.assigned, self.in_func, self.ret_type, self.nest, self.loop_depth = saved

    def expr(self, ty, d=None):
        if ty == "smallint":
            return ("int", self.rng.randint(0, 5))
        if ty == "tinyint":
            return ("int", self.rng.randint(0, 3)) if self.rng.random() < 0.7 or not self.allow_rec else ("bin", "%", ("field", "i"), ("int", 4))
        if ty == "arr1":
            return ("arr", [self.int_lit() for _ in range(self.rng.randint(1, 3))]) if self.rng.random() < 0.5 or "a0" not in self.assigned else ("local", "a0")
        return G.expr(self, ty, d)

    def gen_subr(self, name):
        r = self.rng
        saved = (self.allow_rec, self.assigned, self.in_func, self.ret_type, self.nest, self.loop_depth)
        self.allow_rec = False
        self.in_func = True
        self.ret_type = None
        self.nest = 1
        self.loop_depth = 0
        self.in_subr = True
        self.params = {"s0", "i0"}
        try:
            self.assigned = {"s0", "i0"}
            body = [("print", [("bin", ".", ("local", "s0"), ("str", ":")), ("local", "i0")])] if r.random() < 0.6 else []
            body += [("opassign", "+", ("oos", "ci1"), ("local", "i0"))] if r.random() < 0.6 else []
            body += self.block(0, 2)
            if r.random() < 0.12:
                body.insert(1, ("if", [(("bin", ">", ("local", "i0"), ("int", r.randint(0, 50))), [("return", None)])], None))
            return ("subr", name, [(r.choice(["str", None]), "s0"), (r.choice(["int", None]), "i0")], body), ["str", "int"]
        finally:
            self.in_subr = False
            self.params = set()
            self.allow_rec, self.assigned, self.in_func, self.ret_type, self.nest, self.loop_depth = saved

    def program(self):
        r = self.rng
        self.verb = "filter" if r.random() < 0.15 else "put"
        prog = []
        funcs_after = r.random() < 0.3
        fdefs = []
        for i in range(r.choice([0, 0, 1, 1, 2])):
            name = "f%s" % "abc"[i]
            fn, sig = self.gen_func(name)
            fdefs.append(fn)
            self.funcs[name] = sig
        if r.random() < 0.3:
            sb, ptypes = self.gen_subr("p")
            fdefs.append(sb)
            self.subrs["p"] = ptypes
        if not funcs_after:
            prog += fdefs
        if r.random() < 0.45:
            self.allow_rec = False
            self.assigned = set()
            b = []
            for n, e in (("ci0", ("int", r.randint(0, 5))), ("cm0", ("map", [])), ("cs0", ("str", "")), ("ca0", ("arr", []))):
                if r.random() < 0.5:
                    b.append(("assign", ("oos", n), e))
                    self.assigned.add("@" + n)
                    if n == "ca0":
                        self.has_array_oos = True
            if r.random() < 0.3:
                b += self.block(1, 2)
            if b:
                prog.append(("begin", b))
        oos_assigned = set(x for x in self.assigned if x.startswith("@"))
        # main block
        self.allow_rec = True
        self.assigned = set(oos_assigned)
        self.nest = 0
        main = []
        # initialise some locals so later statements can read them
        for ty in ("int", "str", "bool", "map", "arr"):
            if r.random() < 0.6:
                main += self.local_assign(ty, decl=r.random() < 0.3)
        for _ in range(r.randint(1, 7)):
            main.extend(self.stmt())
        if self.verb == "filter":
            main.append(("bare", self.bool_expr(2)))
        prog += main
        # everything any main statement may have assigned to an oosvar
        oos_main = set(x for x in self.assigned if x.startswith("@")) | self._oos_written(main)
        if r.random() < 0.65:
            self.allow_rec = False
            self.assigned = set(oos_main)
            self.nest = 0
            e = []
            for _ in range(r.randint(1, 4)):
                x = r.random()
                if x < 0.45:
                    e.extend(self.emit_stmt())
                elif x < 0.6:
                    e.append(("dump", None))
                elif x < 0.8:
                    e.extend(self.print_stmt())
                else:
                    e.extend(self.stmt())
            prog.append(("end", e))
        if funcs_after:
            prog += fdefs
        flags = []
        if r.random() < 0.2:
            flags.append("-q")
        if r.random() < 0.08:
            flags.append("-x")
        presets = []
        if r.random() < 0.1:
            presets = [("ci1", r.randint(1, 50))]
        return {"prog": prog, "verb": self.verb, "flags": flags, "presets": presets}

    def _oos_written(self, stmts):
        out = set()

        def walk(x):
            if isinstance(x, (list, tuple)):
                if is_node(x) and x[0] in ("assign", "opassign"):
                    lv = x[1] if x[0] == "assign" else x[2]
                    while lv[0] == "index":
                        lv = lv[1]
                    if lv[0] == "oos":
                        out.add("@" + lv[1])
                for y in x:
                    walk(y)
        walk(stmts)
        return out


def gen_freeform(rng):
    g = PG(rng)
    p = g.program()
    p["records"] = gen_records(rng)
    return p
